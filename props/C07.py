"""C07 - X25519 / Montgomery: structural clauses.  clamp_integer is decided completely (bit-level function);
every DH / public-key path goes through it; ladder structure; to_edwards u=-1 rejection and sign placement;
Montgomery equality/hash canonicalise through the field decoder; contributory = not identity; key conversions."""
import re
import ctx
from mirlib import view, cname, expr_of, root, op_local, op_place, op_const
from pathlib2 import Guard, established, success_sites, dominated, dominates_block, reachable_fns, lookup_callee
import ex

X_SEM = {}
LEVEL = "other"
TECHNIQUE = ("LADDER (polynomial multiples of the base point over symbolic scalar bits) and FORMULA (rational functions: ladder step, birational maps) abstract domains on the MIR interpreter; known-bits abstract interpretation of clamp_integer's MIR (complete for that function); PATH rules (call-identity data flow, "
             "loop-structure and dominance checks on the ladder, must-pass-through of the u=-1 rejection, NOCALL of un-clamped multiplications in x25519-dalek) "
             "over resolved MIR of all three crates")

MP = "curve25519_dalek::montgomery::MontgomeryPoint"
SC = "curve25519_dalek::scalar::Scalar"


def run(tier, R):
    cfgs = [("simd", "release")]
    if tier == "thorough":
        cfgs += [("serial32", "release"), ("fiat64", "release"), ("notables", "release"), ("ifma", "release")]
    FS = ctx.facts_for(R, cfgs)
    R.trust("rustc MIR + resolution; mirfacts; mirlib")
    R.assume("field arithmetic implements the ring operations of GF(p) (C01, C11); conditional_swap swaps; Montgomery's x-only doubling / differential-addition formulas compute x(2P), x(P+Q) "
             "(cited, the code is compared with them as rational identities by C07.formula)")
    for (cfg, mode), F in FS.items():
        check_cfg(F, R, cfg)


def rc(fv, o, pat):
    r = root(fv, o)
    if r[0] == "call" and re.search(pat, cname(r[2])):
        return r[2]
    return None


def clamp_bits(fv):
    """Interpret clamp_integer: returns list of 32 (and_mask, or_mask) describing out[i] = (in[i] & A) | O, or None."""
    # state: local -> array state (list of (A,O)) for [u8;32] locals derived from the parameter
    ident = [(0xff, 0)] * 32
    arr = {1: list(ident)}
    scal = {}      # local -> ('byte', A, O, idx) or ('const', v)
    b = 0
    seen = 0
    while True:
        seen += 1
        if seen > 64:
            return None
        blk = fv.blocks[b]
        for s in blk["s"]:
            if s[0] != "=":
                continue
            (dst, proj), rv = s[1], s[2]
            if rv[0] == "use":
                o = rv[1]
                if o[0] == "k":
                    v = o[1].get("v")
                    if not proj:
                        scal[dst] = ("const", v)
                    continue
                sl, sp = o[1]
                if not sp and sl in arr and not proj:
                    arr[dst] = list(arr[sl])
                    continue
                if not sp and sl in scal:
                    if not proj:
                        scal[dst] = scal[sl]
                        continue
                    # store into array element
                    idx = _const_index(proj, scal)
                    if idx is None or dst not in arr or scal[sl][0] != "byte":
                        return None
                    arr[dst][idx] = (scal[sl][1], scal[sl][2])
                    continue
                idx = _const_index(sp, scal)
                if sl in arr and idx is not None and not proj:
                    scal[dst] = ("byte", arr[sl][idx][0], arr[sl][idx][1], idx)
                    continue
                return None
            if rv[0] == "bin" and rv[1] in ("BitAnd", "BitOr", "Lt"):
                if rv[1] == "Lt":
                    continue
                a, c = rv[2], rv[3]
                av = _val(a, scal, arr)
                cv = _val(c, scal, arr)
                if av is None or cv is None:
                    return None
                x, k = (av, cv) if av[0] == "byte" else (cv, av)
                if x[0] != "byte" or k[0] != "const":
                    return None
                if rv[1] == "BitAnd":
                    res = ("byte", x[1] & k[1], x[2] & k[1], x[3])
                else:
                    res = ("byte", x[1] & ~k[1] & 0xff, x[2] | k[1], x[3])
                if not proj:
                    scal[dst] = res
                else:
                    idx = _const_index(proj, scal)
                    if idx is None or dst not in arr:
                        return None
                    arr[dst][idx] = (res[1], res[2])
                continue
            return None
        t = blk.get("t", {})
        if t.get("k") == "assert" and t["msg"] == "bounds":
            b = t["target"]
            continue
        if t.get("k") == "goto":
            b = t["target"]
            continue
        if t.get("k") == "return":
            return arr.get(0)
        return None


def _const_index(proj, scal):
    if len(proj) != 1:
        return None
    e = proj[0]
    if isinstance(e, list) and e[0] == "ci":
        return e[1]
    if isinstance(e, list) and e[0] == "i":
        v = scal.get(e[1])
        if v and v[0] == "const" and isinstance(v[1], int):
            return v[1]
    return None


def _val(o, scal, arr):
    if o[0] == "k":
        v = o[1].get("v")
        return ("const", v) if isinstance(v, int) else None
    l, p = o[1]
    if not p:
        return scal.get(l)
    idx = _const_index(p, scal)
    if l in arr and idx is not None:
        return ("byte", arr[l][idx][0], arr[l][idx][1], idx)
    return None


def check_cfg(F, R, cfg):
    I = lambda s: "%s:%s" % (cfg, s)

    def fn(path=None, **kw):
        try:
            return F.fn(path, **kw)
        except LookupError as e:
            R.anchor_missing("C07.anchor", I(path or str(kw)), str(e)[:160])
            return None

    # ------------------------------------------------------------------ 1. clamp_integer, bit-exact
    cl = fn("curve25519_dalek::scalar::clamp_integer")
    if cl:
        fv = view(F, cl)
        bits = clamp_bits(fv)
        want = [(0xf8, 0)] + [(0xff, 0)] * 30 + [(0x3f, 0x40)]
        good = bits == want
        (R.ok if good else R.viol)("C07.clamp", I("clamp_integer"), "out[0]=in[0]&0xF8, out[31]=(in[31]&0x3F)|0x40, bytes 1..30 copied (RFC 7748 decodeScalar25519)" if good else
                                   "clamp_integer is not RFC 7748 clamping: per-byte (and,or) masks = %s" % (None if bits is None else [(i, hex(a), hex(o)) for i, (a, o) in enumerate(bits) if (a, o) != (0xff, 0)]),
                                   *(() if good else (fv.loc(),)))

    # ------------------------------------------------------------------ 2. every *_clamped multiplies by Scalar{bytes: clamp_integer(input)}
    sites = []
    for f in F.fns.values():
        if "mir" not in f:
            continue
        for bi, t in view(F, f).calls:
            if re.search(r"scalar::clamp_integer$", cname(t)):
                sites.append((f, bi, t))
    R.floor("C07.clamp_sites", I("clamp_integer call sites"), len(sites), 1)
    # semantic: the five clamped multiplications multiply by the unreduced integer clamp(bytes) (BATCHEQ models, lib/sig_rules.py)
    import sig_rules as SR
    ncl = 0
    for inst, f_, status, msg in SR.clamp_rules(F):
        if status == "ok":
            ncl += 1
            R.ok("C07.sem.clamped", I(inst), msg)
        elif status == "viol":
            ncl += 1
            R.viol("C07.sem.clamped", I(inst), msg, F.loc(f_) if f_ else "")
        elif status == "missing":
            R.anchor_missing("C07.sem.clamped", I(inst), msg)
        else:
            R.note("C07.sem.clamped %s inconclusive (%s): C07.clamped_paths decides" % (inst, msg[:120]))
    R.floor("C07.sem.clamped", I("clamped multiplications decided on symbolic inputs"), ncl, 5)
    if "x25519_dalek" in F.crates:
        nx = 0
        for inst, f_, status, msg in SR.x25519_rules(F):
            X_SEM[(id(F), inst)] = status
            if status in ("ok", "viol"):
                nx += 1
                (R.ok if status == "ok" else R.viol)("C07.sem.x25519", I(inst), msg, *(() if status == "ok" else (F.loc(f_) if f_ else "",)))
            else:
                R.note("C07.sem.x25519 %s inconclusive (%s): the structural x25519 rules decide" % (inst, msg[:120]))
        R.floor("C07.sem.x25519", I("X25519 API functions decided on symbolic inputs"), nx, 3)
    for f, bi, t in sites:
        fv = view(F, f)
        nm = f["path"].split("curve25519_dalek::")[-1].split("ed25519_dalek::")[-1]
        in_ok = root(fv, t["args"][0])[0] in ("arg", "local")
        if f.get("name", "").endswith("clamped"):
            # find multiplication call whose scalar operand is Scalar{bytes: <this call>}
            good = False
            for bj, t2 in fv.calls:
                if re.search(r"::mul_base$|ops::Mul.*::mul$|::mul$", cname(t2)):
                    for a in t2["args"]:
                        r = root(fv, a)
                        if r[0] == "local":
                            ds = fv.defs.get(r[1], [])
                            if len(ds) == 1 and ds[0].kind == "assign" and ds[0].rv[0] == "agg" and same_adt(ds[0].rv[1][1], SC):
                                rr = root(fv, ds[0].rv[2][0])
                                if rr[0] == "call" and rr[2] is t:
                                    good = True
            good = good and root(fv, t["args"][0])[0] == "arg"
            (R.ok if good else R.viol)("C07.clamped_paths", I(nm), "multiplies by Scalar{bytes: clamp_integer(input bytes)}" if good else
                                       "the clamped multiplication does not use the clamped input bytes as its scalar", *(() if good else (fv.loc(),)))
        else:
            R.ok("C07.clamp_sites", I(nm), "clamp_integer applied (checked under its own property: C08 for key expansion)")

    # ------------------------------------------------------------------ 3. x25519-dalek: every path reaches a multiplication only through the clamped entry points
    if "x25519_dalek" in F.crates:
        bad, good_calls = [], 0
        for f in F.fns.values():
            if f["crate"] != "x25519_dalek" or "mir" not in f:
                continue
            for bi, t in view(F, f).calls:
                n = cname(t)
                if re.search(r"curve25519_dalek::", n) and re.search(r"::mul\w*$|ops::Mul", n):
                    if re.search(r"::mul_clamped$|::mul_base_clamped$", n):
                        good_calls += 1
                    else:
                        bad.append("%s -> %s" % (f["path"], n[:90]))
        (R.viol if bad else R.ok)("C07.x25519.only_clamped", I("x25519_dalek"), ("un-clamped multiplication called: %s" % bad) if bad else
                                  "all %d multiplication calls are mul_clamped / mul_base_clamped" % good_calls)
        R.floor("C07.x25519.only_clamped", I("clamped multiplication call sites in x25519_dalek"), good_calls, 1)   # how many sites is a matter of factoring; each API function is C07.sem.x25519's
        # shape of each path
        for f in sorted((f for f in F.fns.values() if f["crate"] == "x25519_dalek" and "mir" in f), key=lambda f: f["key"]):
            fv = view(F, f)
            nm = f["path"].replace("x25519_dalek::x25519::", "")
            if f.get("name") == "diffie_hellman":
                ok_ = False
                for s in fv.exit_sites():
                    if s["kind"] == "agg":
                        t = rc(fv, s["ops"][0], r"MontgomeryPoint::mul_clamped$")
                        ok_ = t is not None and re.match(r"\.0", root(fv, t["args"][0])[2] if root(fv, t["args"][0])[0] == "arg" else "x") is not None \
                            and root(fv, t["args"][0])[1] == 2 and root(fv, t["args"][1])[:2] == ("arg", 1)
                sec_ = nm.split("::")[0]
                if not ok_ and X_SEM.get((id(F), "%s::diffie_hellman" % sec_)) == "ok":
                    R.ok("C07.x25519.dh", I(nm), "structural form not recognised; decided by C07.sem.x25519: the shared secret is clamp(secret bytes) * their_public")
                else:
                    (R.ok if ok_ else R.viol)("C07.x25519.dh", I(nm), "SharedSecret(their_public.0.mul_clamped(self.0))" if ok_ else "diffie_hellman is not their_public.mul_clamped(secret bytes)", *(() if ok_ else (fv.loc(),)))
            if f.get("name") == "from" and re.search(r"From<&x25519_dalek::x25519::(EphemeralSecret|ReusableSecret|StaticSecret)>", f.get("trait") or "") and f.get("self_ty", "").endswith("PublicKey"):
                ok_ = False
                for s in fv.exit_sites():
                    if s["kind"] == "agg":
                        t = rc(fv, s["ops"][0], r"EdwardsPoint::to_montgomery$")
                        t2 = rc(fv, t["args"][0], r"EdwardsPoint::mul_base_clamped$") if t else None
                        ok_ = t2 is not None and root(fv, t2["args"][0])[:2] == ("arg", 1)
                sm_ = re.search(r"(EphemeralSecret|ReusableSecret|StaticSecret)", f.get("trait") or "")
                if not ok_ and sm_ and X_SEM.get((id(F), "PublicKey::from(&%s)" % sm_.group(1))) == "ok":
                    ok_ = True          # structural form not recognised; decided by C07.sem.x25519 (the public key is clamp(secret bytes) * basepoint in Montgomery form)
                (R.ok if ok_ else R.viol)("C07.x25519.public", I(nm + "<" + f["trait"].split("::")[-1]), "PublicKey(mul_base_clamped(secret.0).to_montgomery())" if ok_ else
                                          "public key is not mul_base_clamped(secret).to_montgomery()", *(() if ok_ else (fv.loc(),)))
            if f["path"] == "x25519_dalek::x25519::x25519":
                ok_ = False
                for s in fv.exit_sites():
                    if s["kind"] == "call" and re.search(r"MontgomeryPoint::to_bytes$", cname(s["term"])):
                        t = rc(fv, s["term"]["args"][0], r"MontgomeryPoint::mul_clamped$")
                        if t and root(fv, t["args"][1])[:2] == ("arg", 1):
                            r0 = root(fv, t["args"][0])
                            if r0[0] == "local":
                                ds = fv.defs.get(r0[1], [])
                                ok_ = len(ds) == 1 and ds[0].kind == "assign" and ds[0].rv[0] == "agg" and same_adt(ds[0].rv[1][1], MP) and root(fv, ds[0].rv[2][0])[:2] == ("arg", 2)
                if not ok_ and X_SEM.get((id(F), "x25519(k, u)")) == "ok":
                    ok_ = True          # structural form not recognised; decided by C07.sem.x25519
                (R.ok if ok_ else R.viol)("C07.x25519.fn", I("x25519"), "MontgomeryPoint(u).mul_clamped(k).to_bytes()" if ok_ else "x25519(k,u) is not MontgomeryPoint(u).mul_clamped(k).to_bytes()", *(() if ok_ else (fv.loc(),)))
            if f.get("name") == "was_contributory":
                ok_ = False
                for s in fv.exit_sites():
                    if s["kind"] == "other" and s.get("rv", [None])[0] == "un" and s["rv"][1] == "Not":
                        t = rc(fv, s["rv"][2], r"IsIdentity>::is_identity$")
                        ok_ = t is not None and root(fv, t["args"][0]) == ("arg", 1, ".0")
                (R.ok if ok_ else R.viol)("C07.contributory", I(nm), "!self.0.is_identity()" if ok_ else "was_contributory is not the negated identity test of the shared secret", *(() if ok_ else (fv.loc(),)))

    # ------------------------------------------------------------------ 4. ladder
    mulf = fn(None, self_ty="^&.*%s$" % MP, trait=r"ops::Mul<&curve25519_dalek::scalar::Scalar>$", name="mul")
    if mulf:
        fv = view(F, mulf)
        good, msg = False, "Mul<&Scalar> for &MontgomeryPoint does not delegate to mul_bits_be"
        for s in fv.exit_sites():
            if s["kind"] == "call" and re.search(r"MontgomeryPoint::mul_bits_be", cname(s["term"])):
                t = s["term"]
                sl = fv.operand_slice(t["args"][1])
                sk = sl.calls_matching(r"Iterator>::skip$|Iterator>::skip::<")
                rv = sl.calls_matching(r"Iterator>::rev$")
                bl = sl.calls_matching(r"Scalar::bits_le$")
                sk1 = [c for c in sk if op_const(c["args"][1]) and op_const(c["args"][1]).get("v") == 1]
                good = bool(sk1) and bool(rv) and bool(bl) and len(sk) == 1 and root(fv, t["args"][0])[:2] == ("arg", 1) and all(root(fv, c["args"][0])[:2] == ("arg", 2) for c in bl)
                msg = "self.mul_bits_be(scalar.bits_le().rev().skip(1)): bits 254..0, most significant first" if good else \
                    "ladder bit iterator is not scalar.bits_le().rev().skip(1) (skip=%s rev=%s bits_le=%s)" % ([op_const(c["args"][1]) and op_const(c["args"][1]).get("v") for c in sk], bool(rv), bool(bl))
        sem = ladder_semantic(F, mulf, "mul")
        if sem[0]:
            R.ok("C07.ladder.bits", I("&MontgomeryPoint * &Scalar"), sem[1])
        elif good:
            R.viol("C07.ladder.bits", I("&MontgomeryPoint * &Scalar"), "the bit iterator has the expected shape but the ladder does not evaluate to the scalar's 255 low bits: " + sem[1], fv.loc())
        else:
            R.viol("C07.ladder.bits", I("&MontgomeryPoint * &Scalar"), msg + "; " + sem[1], fv.loc())
    bl = fn("curve25519_dalek::scalar::Scalar::bits_le")
    if bl:
        cls = F.closures_of(bl["key"])
        good = False
        fv = view(F, bl)
        rng_ok = any(s[0] == "=" and s[2][0] == "agg" and "Range" in str(s[2][1]) and [op_const(o) and op_const(o).get("v") for o in s[2][2]] == [0, 256] for b in fv.blocks for s in b["s"])
        if len(cls) == 1 and rng_ok:
            cv = view(F, cls[0])
            for s in cv.exit_sites():
                if s["kind"] == "other" and "rv" in s:
                    from mirlib import _expr_rv
                    e = _expr_rv(cv, s["rv"], 20)
                    good = bits_le_expr(e)
        import codec_rules as CR_
        sem_ok, sem_msg = CR_.bits_le(F)
        if sem_ok is True:
            R.ok("C07.ladder.bits_le", I("Scalar::bits_le"), sem_msg + " (bit-provenance domain)")
        elif sem_ok is False:
            R.viol("C07.ladder.bits_le", I("Scalar::bits_le"), sem_msg, fv.loc())
        else:
            (R.ok if good else R.viol)("C07.ladder.bits_le", I("Scalar::bits_le"), "bit i = (bytes[i>>3] >> (i&7)) & 1 for i in 0..256" if good else "bits_le does not enumerate bit i of byte i>>3 for i in 0..256 (%s)" % sem_msg, *(() if good else (fv.loc(),)))
    mb = fn("curve25519_dalek::montgomery::MontgomeryPoint::mul_bits_be")
    if mb:
        sem = ladder_semantic(F, mb, "bits")
        if sem[0]:
            R.ok("C07.ladder.structure", I("mul_bits_be"), sem[1])
        else:
            good, msg = ladder_structure(F, view(F, mb))      # syntactic form: only used to explain the failure
            R.viol("C07.ladder.structure", I("mul_bits_be"), sem[1] + ("" if good else "; " + msg), view(F, mb).loc())

    # ------------------------------------------------------------------ 4b. FORMULA domain: ladder step and birational maps as rational identities
    import formula_rules as FR
    mpp = F.adts.get("curve25519_dalek::montgomery::ProjectivePoint")
    if not mpp:
        R.anchor_missing("C07.anchor", I("montgomery::ProjectivePoint"))
    else:
        fe_ty = mpp["variants"][0]["fields"][0]["ty"]
        nf = 0
        f_, ok, msg = FR.ladder_step(F, fe_ty)
        nf += 1 if f_ else 0
        (R.ok if ok else R.viol)("C07.formula", I("differential_add_and_double"), msg, *(() if ok else (F.loc(f_) if f_ else "",)))
        for inst, f_, ok, msg in FR.birational(F, fe_ty):
            nf += 1 if f_ else 0
            (R.ok if ok else R.viol)("C07.formula", I(inst), str(msg), *(() if ok else (F.loc(f_) if f_ else "",)))
        R.floor("C07.formula", I("Montgomery formulas decided"), nf, 3)

    # ------------------------------------------------------------------ 5. to_edwards
    te = fn("curve25519_dalek::montgomery::MontgomeryPoint::to_edwards")
    if te:
        fv = view(F, te)

        def m1_pred(fv_, t):
            a, b = expr_of(fv_, t["args"][0]), expr_of(fv_, t["args"][1])
            for x, y in ((a, b), (b, a)):
                xs, ys = ex.strip(x), ex.strip(y)
                if ys[0] == "const" and is_minus_one(ys) and ex.is_call(xs, r"field::FieldElement\w+::from_bytes$") and ex.mentions_arg(xs, 1):
                    return True
            return False
        g = Guard("u != -1", r"FieldElement\w+ as core::cmp::PartialEq>::eq$|impl core::cmp::PartialEq for .*FieldElement\w+>::eq$", want=0, arg_pred=m1_pred,
                  alt=[(r"FieldElement\w+ as core::cmp::PartialEq>::ne$|impl core::cmp::PartialEq for .*FieldElement\w+>::ne$", 1)])
        edges = g.edges(fv)
        sites = [s["bb"] for s in success_sites(fv)]
        good = bool(edges) and bool(sites) and dominated(fv, sites, edges)
        (R.ok if good else R.viol)("C07.to_edwards.minus_one", I("to_edwards"), "u == -1 rejected before the inversion; Some only via Edwards decompression" if good else
                                   "a Some exit of to_edwards is not dominated by the rejection of u = -1", *(() if good else (fv.loc(),)))
        # every non-None exit is the Edwards decoder applied to the computed y bytes
        deleg = [s for s in success_sites(fv)]
        good = bool(deleg) and all(s["kind"] == "deleg" and re.search(r"CompressedEdwardsY::decompress$", cname(s["term"])) for s in deleg)
        (R.ok if good else R.viol)("C07.to_edwards.decode", I("to_edwards"), "result = CompressedEdwardsY(y_bytes).decompress()" if good else "to_edwards can return Some without Edwards decompression", *(() if good else (fv.loc(),)))
        # sign enters only bit 7 of byte 31
        stores = [s for b in fv.blocks for s in b["s"] if s[0] == "=" and s[1][1] and fv.locals[s[1][0]]["ty"] == "[u8; 32]"]
        good = len(stores) == 1 and sign_store(fv, stores[0])
        (R.ok if good else R.viol)("C07.to_edwards.sign", I("to_edwards"), "y_bytes[31] ^= sign << 7" if good else "sign is not XORed as (sign << 7) into byte 31 only", *(() if good else (fv.loc(),)))

    # ------------------------------------------------------------------ 6. Montgomery equality / hash are modulo p
    ce = fn(None, self_ty="^%s$" % MP, trait=r"ConstantTimeEq$", name="ct_eq")
    if ce:
        fv = view(F, ce)
        good = False
        for s in fv.exit_sites():
            if s["kind"] == "call" and re.search(r"ConstantTimeEq.*::ct_eq$", cname(s["term"])):
                a = [rc(fv, x, r"field::FieldElement\w+::from_bytes$") for x in s["term"]["args"]]
                good = all(a) and {root(fv, t["args"][0])[:2] for t in a} == {("arg", 1), ("arg", 2)}
        (R.ok if good else R.viol)("C07.eq_mod_p", I("MontgomeryPoint::ct_eq"), "ct_eq(from_bytes(self.0), from_bytes(other.0))" if good else "Montgomery equality does not canonicalise both sides through the field decoder", *(() if good else (fv.loc(),)))
    hs = fn(None, self_ty="^%s$" % MP, trait=r"hash::Hash$", name="hash")
    if hs:
        fv = view(F, hs)
        good = False
        for bi, t in fv.calls:
            if re.search(r"hash::Hash>::hash|Hash.*::hash", cname(t)) and t is not None:
                ab = rc(fv, t["args"][0], r"field::FieldElement\w+::as_bytes$")
                fb = rc(fv, ab["args"][0], r"field::FieldElement\w+::from_bytes$") if ab else None
                if fb and root(fv, fb["args"][0])[:2] == ("arg", 1):
                    good = True
        (R.ok if good else R.viol)("C07.hash_mod_p", I("MontgomeryPoint::hash"), "hash(as_bytes(from_bytes(self.0)))" if good else "Montgomery hashing does not canonicalise through decode/encode", *(() if good else (fv.loc(),)))

    # ------------------------------------------------------------------ 7. conversions in ed25519-dalek
    if "ed25519_dalek" in F.crates:
        tsb = fn("ed25519_dalek::signing::SigningKey::to_scalar_bytes")
        if tsb:
            fv = view(F, tsb)
            reach = reachable_fns(F, [tsb], stop=lambda f: f["crate"] != "ed25519_dalek")
            clamps = [f["path"] for f in reach.values() if "mir" in f for _, t in view(F, f).calls if re.search(r"clamp_integer$", cname(t))]
            sha = any(re.search(r"Sha512|Digest", cname(t)) for _, t in fv.calls)
            good = not clamps and sha
            (R.ok if good else R.viol)("C07.to_scalar_bytes", I("SigningKey::to_scalar_bytes"), "first 32 bytes of SHA-512(seed), unclamped" if good else "to_scalar_bytes clamps or does not hash the seed (clamps=%s)" % clamps, *(() if good else (fv.loc(),)))
        tm = fn("ed25519_dalek::verifying::VerifyingKey::to_montgomery")
        if tm:
            fv = view(F, tm)
            good = False
            for s in fv.exit_sites():
                if s["kind"] == "call" and re.search(r"EdwardsPoint::to_montgomery$", cname(s["term"])):
                    r = root(fv, s["term"]["args"][0])
                    good = r[0] == "arg" and r[1] == 1
            (R.ok if good else R.viol)("C07.vk_to_montgomery", I("VerifyingKey::to_montgomery"), "self.point.to_montgomery()" if good else "VerifyingKey::to_montgomery is not point.to_montgomery()", *(() if good else (fv.loc(),)))
    tmo = fn("curve25519_dalek::edwards::EdwardsPoint::to_montgomery")
    if tmo:
        fv = view(F, tmo)
        good, msg = to_montgomery_shape(F, fv)
        (R.ok if good else R.viol)("C07.to_montgomery", I("EdwardsPoint::to_montgomery"), msg, *(() if good else (fv.loc(),)))


def is_minus_one(c):
    """constant expression denotes the field element -1 (by name or by evaluated value)"""
    if str(c[3] or "").endswith("::MINUS_ONE"):
        return True
    v = c[1]
    if isinstance(v, dict) and "ref" in v:
        v = v["ref"]
    try:
        from eng_consts import fe_decode
        import oracle
        return fe_decode(v)[0] % oracle.P == oracle.P - 1
    except Exception:
        return False


def same_adt(a, b):
    return a.split("::")[0] == b.split("::")[0] and a.split("::")[-1] == b.split("::")[-1]


def bits_le_expr(e):
    """== 1 of ((bytes[i >> 3] >> (i & 7)) & 1)"""
    e = ex.strip(e)
    if not (isinstance(e, tuple) and e[0] == "bin" and e[1] == "Eq"):
        return False
    a, b = ex.strip(e[2]), ex.strip(e[3])
    x = a if ex.is_const(b, 1) else (b if ex.is_const(a, 1) else None)
    if x is None or x[0] != "bin" or x[1] != "BitAnd":
        return False
    p, q = ex.strip(x[2]), ex.strip(x[3])
    sh = p if ex.is_const(q, 1) else (q if ex.is_const(p, 1) else None)
    if sh is None or sh[0] != "bin" or sh[1] != "Shr":
        return False
    byte, amt = ex.strip(sh[2]), ex.strip(sh[3])
    if not (byte[0] == "idx" and amt[0] == "bin" and amt[1] == "BitAnd"):
        return False
    idx = ex.strip(byte[2])
    if not (idx[0] == "bin" and idx[1] == "Shr" and ex.is_const(idx[3], 3) and ex.is_arg(idx[2], 2)):
        return False
    am = [ex.strip(amt[2]), ex.strip(amt[3])]
    return any(ex.is_const(z, 7) for z in am) and any(ex.is_arg(z, 2) for z in am) and ex.mentions_arg(byte[1], 1)


def ladder_semantic(F, f, how):
    """LADDER domain (lib/eng_ladder.py): points are polynomial multiples n*P over the symbolic scalar bits; conditional_swap and
    differential_add_and_double act by their documented contracts; the loop is followed concretely.  Independent of the loop's syntax."""
    import eng_ladder as LD
    from absint import I as Iv
    self_v = ("st", (("arr", (Iv(0, 255),) * 32),))
    try:
        if how == "bits":
            bits = ("it", "vals", ("arr", tuple(LD.bit(254 - i) for i in range(255))), Iv(0), Iv(255))
            ret, ip = LD.run(F, f, [self_v, bits])
        else:
            ret, ip = LD.run(F, f, [self_v, ("scal", "s")])
    except Exception as e:
        return False, "ladder analysis failed: %r" % (e,)
    if ip.models.bad:
        return False, ip.models.bad[0]
    if ret is None or ret[0] != "mp":
        return False, "the result is not a polynomial multiple of the base point in the LADDER domain"
    got = dict(ret[1])
    exp = {(j,): 2 ** j for j in range(255)}
    if got != exp:
        wrong = [k for k in set(got) | set(exp) if got.get(k) != exp.get(k)]
        k = sorted(wrong, key=repr)[0]
        return False, "the ladder does not return (sum_j 2^j b_j) * P over bits 0..254: %d monomials differ (e.g. %s: coefficient %s, expected %s)" % (len(wrong), "*".join("b%d" % i for i in k) or "1", got.get(k), exp.get(k))
    return True, "= (sum_{j<255} 2^j b_j) * P; %d ladder steps, each with Q - P = +-base (LADDER domain)" % ip.models.steps


def ladder_structure(F, fv):
    nxt = [(bi, t) for bi, t in fv.calls if re.search(r"Iterator>::next$", cname(t))]
    if len(nxt) != 1:
        return False, "expected one iterator next() (single loop over the bits)"
    hb, ht = nxt[0]
    loop = {b for b in fv.reach(start=hb) if hb in fv.reach(start=b)}
    swaps = [(bi, t) for bi, t in fv.calls if re.search(r"ConditionallySelectable>::conditional_swap$", cname(t))]
    dads = [(bi, t) for bi, t in fv.calls if re.search(r"montgomery::differential_add_and_double$", cname(t))]
    in_s = [(bi, t) for bi, t in swaps if bi in loop]
    out_s = [(bi, t) for bi, t in swaps if bi not in loop]
    if len(in_s) != 1 or len(out_s) != 1 or len(dads) != 1 or dads[0][0] not in loop:
        return False, "expected one conditional_swap + one differential_add_and_double per bit and one final swap (found %d/%d/%d)" % (len(in_s), len(dads), len(out_s))
    (sb, st), (db, dt), (fb, ft) = in_s[0], dads[0], out_s[0]
    # per-iteration order: swap before step, both on every iteration (swap dominates step within the loop body and step dominates back edge)
    if not dominates_block(fv, sb, db):
        return False, "the per-bit swap does not precede the ladder step"
    # element of this iteration
    return _ladder_rest(F, fv, ht, st, dt, ft, fb, loop)


def _ladder_rest(F, fv, ht, st, dt, ft, fb, loop):
    def base(o):
        # &mut *(&mut x) -> x
        pl = op_place(o)
        if pl:
            ts = fv._mutref_targets(pl[0], set())
            if len(ts) == 1:
                return next(iter(ts))
        r = root(fv, o)
        if r[0] == "local":
            return r[1]
        return None
    x0, x1 = base(st["args"][0]), base(st["args"][1])
    if x0 is None or x1 is None or (base(dt["args"][0]), base(dt["args"][1])) != (x0, x1) or (base(ft["args"][0]), base(ft["args"][1])) != (x0, x1):
        return False, "swaps and ladder step do not operate on the same (x0, x1) pair in the same order"
    # choice of in-loop swap: prev ^ cur
    ce = expr_of(fv, st["args"][2], 12)
    xors = ex.find(ce, lambda x: x[0] == "bin" and x[1] == "BitXor")
    if not xors:
        return False, "per-bit swap choice is not prev_bit ^ cur_bit"
    a, b = ex.strip(xors[0][2]), ex.strip(xors[0][3])
    cur = [z for z in (a, b) if ex.mentions_call(z, r"Iterator>::next$")]
    prev = [z for z in (a, b) if z[0] == "local"]
    if len(cur) != 1 or len(prev) != 1:
        return False, "per-bit swap choice is not (previous bit) ^ (current bit)"
    prev_l = prev[0][1]
    # prev is updated to cur inside the loop and starts false
    defs = fv.defs.get(prev_l, [])
    init = [d for d in defs if d.kind == "assign" and d.bb not in loop and d.rv[0] == "use" and op_const(d.rv[1]) and op_const(d.rv[1]).get("v") == 0]
    upd = [d for d in defs if d.kind == "assign" and d.bb in loop and ex.mentions_call(expr_of(fv, d.rv[1], 12) if d.rv[0] == "use" else ("?",), r"Iterator>::next$")]
    if not init or not upd:
        return False, "prev_bit is not initialised to false and updated to the current bit each iteration"
    fe = expr_of(fv, ft["args"][2], 12)
    if not ex.find(fe, lambda x: x[0] == "local" and x[1] == prev_l):
        return False, "final swap is not controlled by the last bit"
    # third argument of the step is the affine u of the input; x1 starts as (u : 1), x0 as identity
    u = root(fv, dt["args"][2])
    ucall = rc(fv, dt["args"][2], r"field::FieldElement\w+::from_bytes$")
    if not (ucall and root(fv, ucall["args"][0])[:2] == ("arg", 1)):
        return False, "ladder step is not given from_bytes(self.0) as the base u"
    d0 = [d for d in fv.defs.get(x0, []) if not d.via_mutref]
    d1 = [d for d in fv.defs.get(x1, []) if not d.via_mutref]
    ok0 = len(d0) == 1 and d0[0].kind == "call" and re.search(r"Identity>::identity$", cname(d0[0].term))
    ok1 = len(d1) == 1 and d1[0].kind == "assign" and d1[0].rv[0] == "agg" and rc(fv, d1[0].rv[2][0], r"from_bytes$") is ucall and \
        str((op_const(d1[0].rv[2][1]) or {}).get("def", "")).endswith("::ONE")
    if not (ok0 and ok1):
        return False, "initial ladder state is not (identity, (u:1))"
    # result: as_affine(x0) after the final swap
    ok_ret = False
    for s in fv.exit_sites():
        if s["kind"] == "call" and re.search(r"ProjectivePoint::as_affine$", cname(s["term"])):
            r = root(fv, s["term"]["args"][0])
            ok_ret = r[0] == "local" and r[1] == x0 and dominates_block(fv, fb, s["bb"])
    if not ok_ret:
        return False, "result is not x0.as_affine() after the final swap"
    return True, "per bit: swap(prev^cur) then differential_add_and_double(x0,x1,u); final swap on the last bit; result x0.as_affine(); start (identity,(u:1))"


def sign_store(fv, s):
    proj = s[1][1]
    if len(proj) != 1:
        return False
    idx = None
    if proj[0][0] == "i":
        e = ex.strip(expr_of(fv, ["c", [proj[0][1], []]]))
        idx = e[1] if e[0] == "const" else None
    elif proj[0][0] == "ci":
        idx = proj[0][1]
    if idx != 31:
        return False
    from mirlib import _expr_rv
    e = ex.strip(_expr_rv(fv, s[2], 10))
    if not (e[0] == "bin" and e[1] == "BitXor"):
        return False
    a, b = ex.strip(e[2]), ex.strip(e[3])
    for x, y in ((a, b), (b, a)):
        if y[0] == "bin" and y[1] == "Shl" and ex.is_arg(y[2], 2) and ex.is_const(y[3], 7) and x[0] == "idx" and ex.is_const(x[2], 31):
            return True
    return False


def to_montgomery_shape(F, fv):
    EP = "curve25519_dalek::edwards::EdwardsPoint"
    a = F.adts.get(EP)
    idx = {f["name"]: i for i, f in enumerate(a["variants"][0]["fields"])}
    for s in fv.exit_sites():
        if s["kind"] == "agg":
            ab = rc(fv, s["ops"][0], r"field::FieldElement\w+::as_bytes$")
            mul = rc(fv, ab["args"][0], r"ops::Mul.*::mul$") if ab else None
            if not mul:
                continue
            for x, y in ((mul["args"][0], mul["args"][1]), (mul["args"][1], mul["args"][0])):
                add = rc(fv, x, r"ops::Add.*::add$")
                inv = rc(fv, y, r"field::.*::invert$")
                sub = rc(fv, inv["args"][0], r"ops::Sub.*::sub$") if inv else None
                if add and sub:
                    fa = {root(fv, o) for o in add["args"]}
                    sa = [root(fv, o) for o in sub["args"]]
                    if fa == {("arg", 1, ".%d" % idx["Z"]), ("arg", 1, ".%d" % idx["Y"])} and sa == [("arg", 1, ".%d" % idx["Z"]), ("arg", 1, ".%d" % idx["Y"])]:
                        return True, "u = (Z+Y) * invert(Z-Y), encoded canonically"
    return False, "to_montgomery is not as_bytes((Z+Y) * invert(Z-Y))"
