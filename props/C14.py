"""C14 - erasure: Drop coverage of the secret-holding types, Zeroize impl coverage (scalars -> 0, points -> identity),
and wiping of scalar-derived heap buffers in constant-time multiscalar multiplication and batch inversion."""
import re
import ctx
from mirlib import view, cname, root, op_local, op_place, op_const
from pathlib2 import dominates_block
from eng_taint import Taint
import ex

LEVEL = "other"
TECHNIQUE = ("ZEROIZE: per-type field coverage of Drop / Zeroize bodies computed from ADT facts (every non-public field reaches a zeroize call or an "
             "identity-constant store on all normal paths); heap-buffer typestate: TAINT from the scalar parameters of the constant-time multiscalar / "
             "batch-inversion roots finds every scalar-derived heap local, each must be a single-allocation Vec that is Zeroizing-wrapped from "
             "construction or explicitly zeroized on every normal path before its drop; per backend")

SECRET_TYPES = {
    "ed25519_dalek::signing::SigningKey": {"public_fields": {"verifying_key"}},
    "ed25519_dalek::hazmat::ExpandedSecretKey": {"public_fields": set()},
    "x25519_dalek::x25519::EphemeralSecret": {"public_fields": set()},
    "x25519_dalek::x25519::ReusableSecret": {"public_fields": set()},
    "x25519_dalek::x25519::StaticSecret": {"public_fields": set()},
    "x25519_dalek::x25519::SharedSecret": {"public_fields": set()},
}
ZERO_CALL = re.compile(r"zeroize::Zeroize>::zeroize$|zeroize::__internal::AssertZeroize>::zeroize_or_on_drop$|impl zeroize::Zeroize for .*>::zeroize$")
HEAP = re.compile(r"^(zeroize::Zeroizing<)?(\w+::)?(alloc::vec::Vec<|alloc::boxed::Box<|alloc::collections::|alloc::string::String|alloc::rc::|alloc::sync::)")


def run(tier, R):
    cfgs = [("simd", "release"), ("serial64", "release")]
    if tier == "thorough":
        cfgs += [("serial32", "release"), ("fiat64", "release"), ("fiat32", "release"), ("ifma", "release"), ("notables", "release")]
    FS = ctx.facts_for(R, cfgs)
    R.trust("rustc MIR + resolution; mirfacts; zeroize's volatile-write semantics; Vec not reallocating when collecting from an exact-size iterator")
    R.assume("stack copies of Copy types and what the optimiser does after MIR are out of scope (source-level erasure)")
    for (cfg, mode), F in FS.items():
        check_cfg(F, R, cfg)


def fields_of(F, adt):
    a = F.adts.get(adt)
    if not a:
        return None
    return [(i, f["name"], f["ty"]) for i, f in enumerate(a["variants"][0]["fields"])]


def written_fields(fv, selfl=1):
    """fields of *self that are zeroized (call) or assigned, with the block where it happens:
    {field index: [(kind, bb, detail)]}; 'whole' key when self itself is passed to a zeroize call"""
    out = {}
    for bi, t in fv.calls:
        if not ZERO_CALL.search(cname(t)):
            continue
        a = t["args"][0]
        tgt = None
        cur = op_local(a)
        hops = 0
        while cur is not None and hops < 12:
            hops += 1
            if cur == selfl:
                tgt = [selfl, []]
                break
            ds = [d for d in fv.defs.get(cur, []) if not d.proj and not d.via_mutref]
            if len(ds) != 1:
                break
            d = ds[0]
            if d.kind == "assign" and d.rv[0] in ("ref", "rawptr"):
                pl = d.rv[2]
                if pl[0] == selfl:
                    tgt = pl
                    break
                cur = pl[0]
            elif d.kind == "assign" and d.rv[0] == "use" and op_local(d.rv[1]) is not None:
                cur = op_local(d.rv[1])
            elif d.kind == "assign" and d.rv[0] == "cast" and op_local(d.rv[2]) is not None:
                cur = op_local(d.rv[2])
            elif d.kind == "call" and d.term["args"] and re.search(r"::iter_mut$|DerefMut>::deref_mut$|::as_mut_slice$|::as_mut$|BorrowMut<.*>>::borrow_mut$|::as_mut_ptr$", cname(d.term)):
                cur = op_local(d.term["args"][0])
            else:
                break
        if tgt is not None and tgt[0] == selfl:
            fs = [e[1] for e in tgt[1] if isinstance(e, list) and e[0] == "f"]
            if fs:
                out.setdefault(fs[0], []).append(("zeroize", bi, cname(t)))
            else:
                out.setdefault("whole", []).append(("zeroize", bi, cname(t)))
    for bi, b in enumerate(fv.blocks):
        for s in b["s"]:
            if s[0] == "=" and s[1][0] == selfl:
                fs = [e[1] for e in s[1][1] if isinstance(e, list) and e[0] == "f"]
                if fs:
                    out.setdefault(fs[0], []).append(("assign", bi, s[2]))
    return out


def covers_all_paths(fv, bbs):
    """every path entry->return passes through one of the blocks"""
    rets = fv.return_blocks()
    reach = fv.reach(removed_blocks=set(bbs))
    return all(r not in reach for r in rets) or any(r in bbs for r in rets)


def check_cfg(F, R, cfg):
    I = lambda s: "%s:%s" % (cfg, s)
    zeroize_on = any("feature=zeroize" in c.cfg for c in F.crates.values())
    # ------------------------------------------------------------------ 1. Drop coverage
    n_types = 0
    for T, info in SECRET_TYPES.items():
        crate = T.split("::")[0]
        if crate not in F.crates:
            continue
        flds = fields_of(F, T)
        if flds is None:
            R.anchor_missing("C14.drop", I(T))
            continue
        n_types += 1
        drops = [f for f in F.fns.values() if "mir" in f and f.get("self_ty") == T and re.search(r"core::ops::Drop$", f.get("trait") or "") and f.get("name") == "drop"]
        short = T.split("::")[-1]
        if len(drops) != 1:
            R.viol("C14.drop", I(short), "no Drop impl for secret-holding type %s: its bytes survive the owner" % short)
            continue
        fv = view(F, drops[0])
        w = written_fields(fv)
        for i, name, ty in flds:
            if name in info["public_fields"]:
                continue
            ev = w.get(i, []) + w.get("whole", [])
            zs = [e for e in ev if e[0] == "zeroize"]
            good = bool(zs) and covers_all_paths(fv, [e[1] for e in zs])
            (R.ok if good else R.viol)("C14.drop", I("%s.%s" % (short, name)), "zeroized in Drop on every normal path" if good else
                                       "secret field %s.%s is not zeroized on every path of Drop::drop" % (short, name), *(() if good else (fv.loc(),)))
    R.floor("C14.drop", I("secret-holding types"), n_types, 2 if "x25519_dalek" not in F.crates else 6)

    # ------------------------------------------------------------------ 2. Zeroize impls: every field wiped, points reset to identity constants
    import oracle
    from C03 import const_fe
    zimpls = [f for f in F.fns.values() if "mir" in f and re.search(r"zeroize::Zeroize$", f.get("trait") or "") and f.get("name") == "zeroize" and not f.get("derived")
              and f["crate"] in ("curve25519_dalek", "ed25519_dalek", "x25519_dalek")]
    R.floor("C14.zeroize_impl", I("hand-written Zeroize impls"), len(zimpls), 8)
    for f in sorted(zimpls, key=lambda f: f["key"]):
        T = f.get("self_ty") or ""
        short = T.replace("curve25519_dalek::", "")
        fv = view(F, f)
        base = re.sub(r"<.*", "", T)
        flds = fields_of(F, base)
        if flds is None:
            R.note("Zeroize impl for non-ADT or generic type %s skipped" % T)
            continue
        w = written_fields(fv)
        for i, name, ty in flds:
            ev = w.get(i, []) + w.get("whole", [])
            good = bool(ev) and covers_all_paths(fv, [e[1] for e in ev])
            (R.ok if good else R.viol)("C14.zeroize_impl", I("%s.%s" % (short, name)), "wiped or reset by zeroize()" if good else
                                       "field %s of %s is not written by its Zeroize impl" % (name, short), *(() if good else (fv.loc(),)))
        # identity values for point types
        if base.endswith("edwards::EdwardsPoint"):
            idx = {n: i for i, n, _ in flds}
            good = True
            for nm in ("Y", "Z"):
                asg = [e for e in w.get(idx[nm], []) if e[0] == "assign"]
                ok1 = False
                for e in asg:
                    rv = e[2]
                    if rv[0] == "use":
                        ok1 = ok1 or const_fe(fv, rv[1]) == 1
                good = good and ok1
            for nm in ("X", "T"):
                good = good and any(e[0] == "zeroize" for e in w.get(idx[nm], []))
            (R.ok if good else R.viol)("C14.zeroize_identity", I("EdwardsPoint"), "zeroize() leaves (0,1,1,0) = identity" if good else "EdwardsPoint::zeroize does not reset to the identity (X=T=0, Y=Z=1)", *(() if good else (fv.loc(),)))
        if base.endswith("edwards::CompressedEdwardsY"):
            # zeroize then byte 0 := 1  (encoding of the identity)
            st = [(bi, s) for bi, b in enumerate(fv.blocks) for s in b["s"] if s[0] == "=" and s[1][0] == 1 and any(isinstance(e, list) and e[0] in ("i", "ci") for e in s[1][1])]
            good = False
            if len(st) == 1:
                bi, s = st[0]
                k = op_const(s[2][1]) if s[2][0] == "use" else None
                zs = [e for e in w.get(0, []) if e[0] == "zeroize"]
                good = k is not None and k.get("v") == 1 and bool(zs) and all(dominates_block(fv, z[1], bi) and z[1] != bi for z in zs)
            (R.ok if good else R.viol)("C14.zeroize_identity", I("CompressedEdwardsY"), "zeroize() leaves [1,0,..,0] = encoding of the identity" if good else "CompressedEdwardsY::zeroize does not leave the identity encoding", *(() if good else (fv.loc(),)))

    # ------------------------------------------------------------------ 3. scalar-derived heap buffers in the constant-time roots
    roots = []
    for f in F.fns.values():
        if "mir" not in f or f["kind"] == "Closure":
            continue
        if f.get("name") == "multiscalar_mul" and re.search(r"traits::MultiscalarMul$", f.get("trait") or ""):
            roots.append((f, {1}))
        elif f["path"] == "curve25519_dalek::scalar::Scalar::batch_invert":
            roots.append((f, {1}))
    alloc = F.has_cfg("feature=alloc")
    R.floor("C14.heap", I("constant-time roots with scalar inputs"), len(roots), 4 if alloc else 0)
    T = Taint(F, R, "C14", cfg)
    for f, secret in roots:
        n = f["mir"]["arg_count"]
        T.add_root(f, public_params=set(range(1, n + 1)) - secret)
    T.run()
    n_heap = 0
    for k, f in sorted(T.reached.items()):
        if "mir" not in f:
            continue
        fv = view(F, f)
        lv = T.lv.get(k, {})
        for l, lev in sorted(lv.items()):
            if not lev or l == 0 and False:
                continue
            ty = fv.locals[l]["ty"]
            if not HEAP.search(ty):
                continue
            if 1 <= l <= fv.nargs:
                continue  # caller-owned
            # owned heap local holding scalar-derived data
            owned_defs = [d for d in fv.defs.get(l, []) if not d.via_mutref and not d.proj]
            if not owned_defs:
                continue
            # skip pure temporaries that are moved into another local (the final owner is checked instead)
            if moved_into_other(fv, l):
                continue
            n_heap += 1
            name = fv.locals[l].get("name") or "tmp"
            inst = "%s:%s" % (short_fn(f), name)
            good, msg = heap_ok(F, fv, l, ty)
            (R.ok if good else R.viol)("C14.heap", I(inst), msg, *(() if good else (fv.loc(fv.locals[l].get("line")),)))
    # ------------------------------------------------------------------ 4. the single-allocation premise of the heap rule
    # The Straus digit buffer is `scalars.map(..).collect::<Vec<_>>()` on a caller-supplied iterator: it is one allocation (the one that
    # is wiped) only if the iterator's size hint is exact; with a range hint the Vec grows and frees unwiped blocks.  The public
    # constant-time entry point establishes exactness with assert_eq!(s_hi, Some(s_lo)) before anything is computed.
    if alloc:
        exact_size(F, R, I)
    vec_backend = any("curve25519_dalek_backend=simd" in c for c in F.crates["curve25519_dalek"].cfg)
    R.floor("C14.heap", I("scalar-derived heap buffers found"), n_heap, (3 if vec_backend else 2) if alloc else 0)
    R.extra.setdefault("heap_scan", {})[cfg] = {"functions_reached": len(T.reached), "heap_buffers": n_heap}


def short_fn(f):
    p = f["path"].replace("curve25519_dalek::", "")
    if f.get("trait") and f["kind"] != "Closure":
        p = "<%s as %s>::%s" % ((f.get("self_ty") or "").replace("curve25519_dalek::", "").replace("backend::", ""), re.sub(r"<.*", "", f["trait"]).split("::")[-1], f["name"])
    return p


def moved_into_other(fv, l):
    """local l is only a temporary whose value is moved whole into another local or into a wrapper constructor"""
    for bi, b in enumerate(fv.blocks):
        for s in b["s"]:
            if s[0] == "=" and s[2][0] == "use" and s[2][1][0] == "m" and s[2][1][1] == [l, []] and not s[1][1]:
                return True
    for bi, t in fv.calls:
        for a in t["args"]:
            if a[0] == "m" and a[1] == [l, []] and re.search(r"zeroize::Zeroizing(::)?<.*>::new$|core::iter::IntoIterator>::into_iter$|IntoIterator for alloc::vec::Vec<.*>::into_iter$", cname(t)):
                return True
    return False


def heap_ok(F, fv, l, ty):
    # container kind: only Vec (a single allocation sized from the iterator / element count) is accepted for secret-derived data
    inner = re.sub(r"^zeroize::Zeroizing<", "", ty)
    inner = re.sub(r"^\w+::alloc::", "alloc::", inner)
    if not inner.startswith("alloc::vec::Vec<"):
        return False, "scalar-derived data is held in %s: conversions such as collect::<Box<[_]>>() / into_boxed_slice() re-allocate and free an unwiped copy" % ty[:80]
    # construction: collect::<Vec<_>> / vec![x; n] / Vec::with_capacity, possibly wrapped by Zeroizing::new
    ds = [d for d in fv.defs.get(l, []) if not d.via_mutref and not d.proj]
    for d in ds:
        t = d.term if d.kind == "call" else None
        if t is None and d.kind == "assign" and d.rv[0] == "use":
            r = root(fv, d.rv[1])
            t = r[2] if r[0] == "call" else None
        if t is None:
            return False, "cannot determine how the heap buffer is constructed"
        n = cname(t)
        if re.search(r"zeroize::Zeroizing(::)?<.*>::new$", n):
            r = root(fv, t["args"][0])
            t2 = r[2] if r[0] == "call" else None
            if t2 is None or not re.search(r"Iterator>::collect::<(\w+::)?alloc::vec::Vec<|(\w+::)?alloc::vec::from_elem|Vec(::)?<.*>::with_capacity$", cname(t2)):
                return False, "Zeroizing wraps a buffer that was not built by a single-allocation Vec constructor"
        elif not re.search(r"Iterator>::collect::<(\w+::)?alloc::vec::Vec<|(\w+::)?alloc::vec::from_elem|Vec(::)?<.*>::with_capacity$", n):
            return False, "heap buffer built by %s (expected collect::<Vec<_>>, vec![..; n] or with_capacity)" % n[:80]
    # operations that may re-allocate
    for bi, t in fv.calls:
        if re.search(r"Vec(::)?<.*>::(push|extend\w*|insert|reserve\w*|shrink_to\w*|into_boxed_slice|append|resize\w*|split_off|drain|dedup\w*)$", cname(t)):
            for a in t["args"][:1]:
                pl = op_place(a)
                if pl and (pl[0] == l or l in fv._mutref_targets(pl[0], set())):
                    return False, "re-allocating operation %s on a scalar-derived buffer" % cname(t)[:70]
    if ty.startswith("zeroize::Zeroizing<"):
        return True, "Zeroizing<Vec<_>> from construction (wiped by Drop on every path)"
    # explicit wipe: a Zeroize::zeroize(&mut l) call must lie on every normal path from the buffer's construction to its drop / move-out
    zs = []
    for bi, t in fv.calls:
        if ZERO_CALL.search(cname(t)):
            pl = op_place(t["args"][0])
            if pl and l in fv._mutref_targets(pl[0], set()):
                zs.append(bi)
    if not zs:
        return False, "scalar-derived Vec is dropped without being zeroized (no Zeroize::zeroize(&mut buf) and not Zeroizing)"
    drops = [bi for bi, b in enumerate(fv.blocks) if not b.get("cleanup") and b.get("t", {}).get("k") == "drop" and b["t"]["place"][0] == l]
    moves = [bi for bi, b in enumerate(fv.blocks) if not b.get("cleanup") for t in [b.get("t", {})] if t.get("k") == "call" and any(a[0] == "m" and a[1] == [l, []] for a in t["args"])]
    ends = drops + moves
    if not ends:
        return False, "cannot find where the buffer is released"
    reach = fv.reach(removed_blocks=set(zs))
    for e in ends:
        if e in reach and e not in zs:
            # a release reachable without passing a wipe; tolerate the case where the wipe is in the same block before
            return False, "a normal path releases the buffer (bb%d) without passing through Zeroize::zeroize" % e
    return True, "Zeroize::zeroize(&mut buf) on every normal path before the buffer is released"


def exact_size(F, R, I):
    from pathlib2 import Guard, dominated
    from mirlib import expr_of
    import ex
    n = 0
    for f in sorted(F.fns.values(), key=lambda f: f["key"]):
        if "mir" not in f or f.get("name") != "multiscalar_mul" or not re.search(r"traits::MultiscalarMul$", f.get("trait") or "") or f["crate"] != "curve25519_dalek" \
                or "backend::" in (f.get("self_ty") or ""):
            continue
        fv = view(F, f)
        fwd = [(bi, t) for bi, t in fv.calls if re.search(r"backend::straus_multiscalar_mul|scalar_mul::straus::.*multiscalar_mul", cname(t))]
        if not fwd:
            continue      # a wrapper that delegates to another MultiscalarMul impl (Ristretto -> Edwards), or the backend routine itself
        n += 1

        def pred(fv_, t, param=1):
            # Option<usize>::eq(&hint.1, &Some(hint.0)) with both sides from one size_hint() call on the scalar iterator (parameter `param`)
            a, b = expr_of(fv_, t["args"][0], 12), expr_of(fv_, t["args"][1], 12)
            both = ("tuple", a, b)
            hints = ex.find(both, lambda x: x[0] == "call" and re.search(r"Iterator>::size_hint$", x[1]))
            if not hints:
                return False
            def from_param1(h):
                if ex.mentions_arg(h, param):
                    return True
                for loc in ex.find(h, lambda x: x[0] == "local"):
                    for d in fv_.defs.get(loc[1], []):
                        if d.kind == "call" and not d.via_mutref and any(ex.mentions_arg(expr_of(fv_, a_, 6), param) for a_ in d.term["args"]):
                            return True
                return False
            from_scalars = [h for h in hints if from_param1(h)]
            upper = ex.find(both, lambda x: x[0] == "proj" and str(x[2]).replace("*", "").endswith(".1") and ex.find(x[1], lambda y: y[0] == "call" and re.search(r"size_hint$", y[1])))
            some_lower = ex.find(both, lambda x: x[0] == "agg" and "Option" in str(x[1]) and x[2] and ex.find(x[2][0], lambda y: y[0] == "proj" and str(y[2]).replace("*", "").endswith(".0")))
            return bool(from_scalars) and bool(upper) and bool(some_lower)
        g = Guard("scalars.size_hint().1 == Some(scalars.size_hint().0)", r"core::option::Option<usize> as core::cmp::PartialEq>::eq$", want=1, arg_pred=pred,
                  alt=[(r"core::option::Option<usize> as core::cmp::PartialEq>::ne$", 0)])
        es = g.edges(fv)
        ok = bool(es) and dominated(fv, [bi for bi, _ in fwd], es)
        if not ok:
            # the exactness test was moved into a private helper that is called on the scalar iterator before Straus: every return of the helper must be
            # dominated by the same test on the corresponding parameter, and the call must dominate the Straus call
            for bi, t in fv.calls:
                ck = (t.get("resolved") or {}).get("key") or t.get("callee_key")
                h = F.fns.get(ck)
                if h is None or "mir" not in h or h.get("exported") or h["crate"] != "curve25519_dalek" or h["kind"] == "Closure":
                    continue
                for j, a_ in enumerate(t["args"]):
                    e_ = expr_of(fv, a_, 8)
                    derived = ex.mentions_arg(e_, 1) or any(
                        d.kind == "call" and not d.via_mutref and any(ex.mentions_arg(expr_of(fv, a2, 6), 1) for a2 in d.term["args"])
                        for loc in ex.find(e_, lambda x: x[0] == "local") for d in fv.defs.get(loc[1], []))
                    if not derived:
                        continue
                    hv = view(F, h)
                    gh = Guard("helper: size_hint().1 == Some(size_hint().0)", r"core::option::Option<usize> as core::cmp::PartialEq>::eq$", want=1,
                               arg_pred=lambda fv_, t_, p_=j + 1: pred(fv_, t_, p_), alt=[(r"core::option::Option<usize> as core::cmp::PartialEq>::ne$", 0)])
                    eh = gh.edges(hv)
                    rets = [b_ for b_ in hv.live_blocks() if (hv.blocks[b_].get("t") or {}).get("k") == "return"]
                    if eh and rets and dominated(hv, rets, eh) and t.get("target") is not None and dominated(fv, [b2 for b2, _ in fwd], [(bi, t["target"], "call")]):
                        ok = True
                        break
                if ok:
                    break
        inst = I(short_fn(f))
        if ok:
            R.ok("C14.exact_size", inst, "the Straus call is dominated by `size_hint().1 == Some(size_hint().0)` of the scalar iterator: the digit buffer is collected in one allocation")
        else:
            R.viol("C14.exact_size", inst, "the constant-time multiscalar entry point reaches Straus without establishing that the scalar iterator's size hint is exact: "
                   "`collect()` may then grow the digit buffer and free unwiped blocks holding secret digits", fv.loc())
    R.floor("C14.exact_size", I("constant-time multiscalar entry points forwarding to Straus"), n, 1)
