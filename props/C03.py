"""C03 - Edwards points: structural clauses (decoder validity flag reaches the Option, decoder formula wiring,
sign bit placement, encoder, equality shape, field-wise operations touch all four coordinates consistently,
predicates' constants, encapsulation).  The group law itself (formula completeness) is not decided."""
import re
import ctx
from mirlib import view, cname, expr_of, root, op_local, op_place, op_const, _proj_key
from pathlib2 import Guard, established, success_sites, dominated, expr_guard_edges, dominates_block
import ex

LEVEL = "other"
TECHNIQUE = ("FORMULA: abstract interpretation of the curve formulas' MIR in the domain of rational functions over Z (field kernels = ring operations; serial and AVX2 lane-wise) against the twisted Edwards addition law; PATH: flag-to-decision dominance and call-identity data flow on the Edwards decoder/encoder; FIELDSET: every function that mutates or "
             "assembles an EdwardsPoint field-wise touches all four coordinates with matching sources; shape of projective equality; visibility facts "
             "from the type-checked program; all backends")

EP = "curve25519_dalek::edwards::EdwardsPoint"
CEY = "curve25519_dalek::edwards::CompressedEdwardsY"


def run(tier, R):
    cfgs = [("simd", "release"), ("serial32", "release")]
    if tier == "thorough":
        cfgs += [("serial64", "release"), ("fiat64", "release"), ("fiat32", "release"), ("ifma", "release"), ("notables", "release")]
    FS = ctx.facts_for(R, cfgs)
    R.trust("rustc MIR + resolution; mirfacts; mirlib")
    R.assume("field arithmetic implements the ring operations of GF(p) (C01, C11): the FORMULA rules give add / sub / mul / square / square2 / neg / invert their ring meaning and never enter the kernels; "
             "completeness of the addition law on the curve (no exceptional points for a = -1, d non-square) is the cited theorem of Hisil-Wong-Carter-Dawson / Bernstein-Lange, not re-proved; "
             "the AVX2 (and, in the thorough tier's ifma configuration, AVX-512 IFMA) parallel formulas are decided lane-wise (a vector = four field elements; shuffle / blend move lanes)")
    for (cfg, mode), F in FS.items():
        check_cfg(F, R, cfg)


def rc(fv, o, pat):
    r = root(fv, o)
    if r[0] == "call" and re.search(pat, cname(r[2])):
        return r[2]
    return None


def rproj(fv, o):
    """('callproj', term, '.k') when operand is field k of a call's tuple result"""
    r = root(fv, o)
    if r[0] == "local" and r[2]:
        ds = [d for d in fv.defs.get(r[1], []) if not d.via_mutref]
        if len(ds) == 1 and ds[0].kind == "call":
            return ds[0].term, r[2]
    return None, None


def const_name(fv, o):
    r = root(fv, o)
    k = None
    if r[0] == "const":
        k = r[1]
    elif r[0] == "local" and not r[2]:
        ds = fv.defs.get(r[1], [])
        if len(ds) == 1 and ds[0].kind == "assign" and ds[0].rv[0] == "use" and ds[0].rv[1][0] == "k":
            k = ds[0].rv[1][1]
    return (k.get("def") or "") if k else ""


def const_fe(fv, o):
    """value mod p of a field-element constant operand (named or promoted), else None"""
    r = root(fv, o)
    k = None
    if r[0] == "const":
        k = r[1]
    elif r[0] == "local" and not r[2]:
        ds = fv.defs.get(r[1], [])
        if len(ds) == 1 and ds[0].kind == "assign" and ds[0].rv[0] == "use" and ds[0].rv[1][0] == "k":
            k = ds[0].rv[1][1]
    if not k:
        return None
    v = k.get("v")
    if v is None and k.get("def") and k["def"] in fv.F.const_by_path:
        v = fv.F.const_by_path[k["def"]][0].get("value")
    if isinstance(v, dict) and "ref" in v:
        v = v["ref"]
    try:
        from eng_consts import fe_decode
        import oracle
        return fe_decode(v)[0] % oracle.P
    except Exception:
        return None


def check_cfg(F, R, cfg):
    import oracle
    I = lambda s: "%s:%s" % (cfg, s)
    a = F.adts.get(EP)
    if not a:
        R.anchor_missing("C03.anchor", I("EdwardsPoint"))
        return
    idx = {f["name"]: i for i, f in enumerate(a["variants"][0]["fields"])}
    X, Y, Z, T = (idx[n] for n in "XYZT")

    def fn(path=None, **kw):
        try:
            return F.fn(path, **kw)
        except LookupError as e:
            R.anchor_missing("C03.anchor", I(path or str(kw)), str(e)[:160])
            return None

    # ------------------------------------------------------------------ encapsulation (visibility facts)
    pubf = [f["name"] for f in a["variants"][0]["fields"] if f["vis"] == "pub"]
    (R.viol if pubf else R.ok)("C03.encapsulation", I("EdwardsPoint fields"), ("public coordinate fields: %s" % pubf) if pubf else "X,Y,Z,T are pub(crate): no external construction from coordinates")
    for mod in ("curve25519_dalek::field", "curve25519_dalek::backend"):
        ms = [it for it in F.crates["curve25519_dalek"].items.values() if it["kind"] == "Mod" and it["path"] == mod]
        if not ms:
            R.anchor_missing("C03.encapsulation", I("module " + mod))
        else:
            (R.ok if ms[0]["vis"] != "pub" else R.viol)("C03.encapsulation", I("module " + mod), "visibility %s" % ms[0]["vis"] if ms[0]["vis"] != "pub" else "internal module is public")

    # ------------------------------------------------------------------ decoder
    def fn_quiet(path):
        try:
            return F.fn(path)
        except LookupError:
            return None
    dec = fn("curve25519_dalek::edwards::CompressedEdwardsY::decompress")
    s1 = fn_quiet("curve25519_dalek::edwards::decompress::step_1")
    s2 = fn_quiet("curve25519_dalek::edwards::decompress::step_2")
    if dec and not (s1 and s2):
        # the private helpers the structural rules are anchored on were renamed / dissolved: the decoder is decided semantically instead -
        # the FORMULA instances for both sign bits (what is computed from a valid y) and the decision table on sqrt_ratio_i's flag (when Some is returned)
        import tables
        codec_results(F, a["variants"][0]["fields"][X]["ty"])
        f_ok = FORMULA_OK.get((id(F), "CompressedEdwardsY::decompress[sign bit 0]")) and FORMULA_OK.get((id(F), "CompressedEdwardsY::decompress[sign bit 1]"))
        t_ok, t_msg = tables.decision_table(F, dec, [(r"FieldElement\w*>?::sqrt_ratio_i$|::sqrt_ratio_i$", 2, {"valid": 0})], ["valid"], {"valid": 1})
        if f_ok and t_ok:
            R.ok("C03.decode.semantic", I("CompressedEdwardsY::decompress"), "decompress::step_1 / step_2 not found; decided semantically: C03.formula for both sign bits; " + t_msg)
        else:
            s1 = fn("curve25519_dalek::edwards::decompress::step_1")
            s2 = fn("curve25519_dalek::edwards::decompress::step_2")
            R.viol("C03.decode.semantic", I("CompressedEdwardsY::decompress"), "the decoder's private helpers were not found and the semantic rules do not decide it: %s" % (t_msg if not t_ok else "C03.formula does not hold for both sign bits"), F.loc(dec))
    if s1 and s2 and dec:
        v1 = view(F, s1)
        ret = [s for s in v1.exit_sites()]
        roles = {}
        good, msg = False, "step_1 does not return (flag, X, Y, Z) of sqrt_ratio_i(y^2-1, d*y^2+1)"
        if len(ret) == 1 and ret[0]["kind"] == "other" and ret[0].get("rv", [None])[0] == "agg":
            ops = ret[0]["rv"][2]
            sq = None
            for i, o in enumerate(ops):
                t, p = rproj(v1, o)
                if t is not None and re.search(r"::sqrt_ratio_i$", cname(t)):
                    sq = t
                    roles["flag" if p == ".0" else "X"] = i
                elif rc(v1, o, r"field::FieldElement\w+::from_bytes$"):
                    roles["Y"] = i
                elif const_fe(v1, o) == 1:
                    roles["Z"] = i
            if sq is not None and len(roles) == 4:
                u, v = sq["args"]
                ysq = None
                sub = rc(v1, u, r"ops::Sub.*::sub$")
                add = rc(v1, v, r"ops::Add.*::add$")
                if sub and add:
                    ysq = rc(v1, sub["args"][0], r"::square$")
                    mul = rc(v1, add["args"][0], r"ops::Mul.*::mul$")
                    yb = rc(v1, ysq["args"][0], r"from_bytes$") if ysq else None
                    okf = ysq is not None and yb is not None and root(v1, yb["args"][0])[:2] in (("arg", 1),) or (yb is not None and rc(v1, yb["args"][0], r"::as_bytes$") is not None)
                    if okf and mul and const_fe(v1, sub["args"][1]) == 1 and const_fe(v1, add["args"][1]) == 1:
                        ms = [rc(v1, x, r"::square$") for x in mul["args"]]
                        cs = [const_fe(v1, x) for x in mul["args"]]
                        if any(m is ysq for m in ms) and any(c == oracle.D for c in cs):
                            good = True
                            msg = "(flag, X) = sqrt_ratio_i(Y^2 - 1, d*Y^2 + 1), Y = from_bytes(input), Z = 1"
        (R.ok if good else R.viol)("C03.decode.step1", I("decompress::step_1"), msg, *(() if good else (v1.loc(),)))
        # step_2: sign from bit 7 of byte 31 of the input; T = X*Y after the negation
        v2 = view(F, s2)
        good, msg = False, "step_2 does not build {X negated by input bit 255, Y, Z, T = X*Y}"
        aggs = [(bi, s) for bi, b in enumerate(v2.blocks) for s in b["s"] if s[0] == "=" and s[2][0] == "agg" and s[2][1][0] == "adt" and s[2][1][1] == EP]
        negs = [(bi, t) for bi, t in v2.calls if re.search(r"ConditionallyNegatable.*::conditional_negate$", cname(t))]
        if len(aggs) == 1 and len(negs) == 1:
            ops = aggs[0][1][2][2]
            nb, nt = negs[0]
            ch = ex.strip(expr_of(v2, nt["args"][1], 12))
            sign_ok = False
            for sh in ex.find(ch, lambda x: x[0] == "bin" and x[1] == "Shr"):
                b_ = ex.strip(sh[2])
                if ex.is_const(sh[3], 7) and b_[0] == "idx" and ex.is_const(b_[2], 31) and ex.mentions_arg(b_[1], 1):
                    sign_ok = True
            xl = v2._mutref_targets(op_local(nt["args"][0]), set())
            mul = rc(v2, ops[T], r"ops::Mul.*::mul$")
            if sign_ok and len(xl) == 1 and mul:
                xloc = next(iter(xl))
                ra = [root(v2, o) for o in mul["args"]]
                rX, rY = root(v2, ops[X]), root(v2, ops[Y])
                mul_bb = [bi for bi, t in v2.calls if t is mul][0]
                good = rX[:2] in (("local", xloc), ("arg", xloc)) and set(r[:2] for r in ra) == {rX[:2], rY[:2]} and dominates_block(v2, nb, mul_bb) and nb != mul_bb \
                    and rY[0] == "arg" and root(v2, ops[Z])[0] == "arg"
                msg = "X <- conditional_negate(X, input[31]>>7); T = X*Y computed after the negation" if good else msg
        (R.ok if good else R.viol)("C03.decode.step2", I("decompress::step_2"), msg, *(() if good else (v2.loc(),)))
        # decompress: Some only on the flag; wiring
        dv = view(F, dec)
        if "flag" in roles:
            atom = lambda a_: isinstance(a_, tuple) and a_[0] == "proj" and ex.is_call(a_[1], r"edwards::decompress::step_1$") and a_[2] == ".%d" % roles["flag"]
            edges = expr_guard_edges(dv, atom, True)
            sites = success_sites(dv)
            good = bool(edges) and bool(sites) and dominated(dv, [s["bb"] for s in sites], edges)
            tt_msg = None
            if not good:
                import tables
                tt_ok, tt_msg = tables.decision_table(F, dec, [(r"edwards::decompress::step_1$", 4, {"valid": roles["flag"]})], ["valid"], {"valid": 1})
                if tt_ok:
                    good = True
            (R.ok if good else R.viol)("C03.decode.flag", I("CompressedEdwardsY::decompress"), ("Some only when sqrt_ratio_i reported a square" + ("; structural form not recognised, " + tt_msg if tt_msg else "")) if good else
                                       "a Some exit is not dominated by the validity flag of step_1", *(() if good else (dv.loc(),)))
            good = False
            for s in sites:
                if s["kind"] == "agg":
                    t2 = rc(dv, s["ops"][0], r"edwards::decompress::step_2$")
                    if t2:
                        exp = [("arg", 1)] + [roles[k] for k in ("X", "Y", "Z")]
                        got = [root(dv, t2["args"][0])[:2]]
                        for o in t2["args"][1:]:
                            t, p = rproj(dv, o)
                            got.append(int(p[1:]) if t is not None and re.search(r"decompress::step_1$", cname(t)) else None)
                        good = got == exp
            if not good:
                epa_ = F.adts.get("curve25519_dalek::edwards::EdwardsPoint")
                if epa_:
                    codec_results(F, epa_["variants"][0]["fields"][X]["ty"])
                if FORMULA_OK.get((id(F), "CompressedEdwardsY::decompress[sign bit 0]")) and FORMULA_OK.get((id(F), "CompressedEdwardsY::decompress[sign bit 1]")):
                    good = True      # structural form not recognised; C03.formula decides the coordinates of the decoded point for both sign bits
            (R.ok if good else R.viol)("C03.decode.wiring", I("CompressedEdwardsY::decompress"), "Some(step_2(self, X, Y, Z of step_1))" if good else "step_2 is not applied to step_1's (X,Y,Z) in order", *(() if good else (dv.loc(),)))

    # ------------------------------------------------------------------ encoder
    comp = fn("curve25519_dalek::edwards::EdwardsPoint::compress")
    if comp:
        fv = view(F, comp)
        good, msg = compress_shape(fv, X, Y, Z)
        if not good:
            epa_ = F.adts.get("curve25519_dalek::edwards::EdwardsPoint")
            if epa_:
                codec_results(F, epa_["variants"][0]["fields"][X]["ty"])
        if not good and FORMULA_OK.get((id(F), "EdwardsPoint::compress")):
            good, msg = True, "structural form not recognised; decided by C03.formula: the encoder outputs y = Y/Z with the sign of x = X/Z"
        (R.ok if good else R.viol)("C03.encode", I("EdwardsPoint::compress"), msg, *(() if good else (fv.loc(),)))

    # ------------------------------------------------------------------ equality shape
    ce = fn(None, self_ty="^%s$" % EP, trait=r"ConstantTimeEq$", name="ct_eq")
    if ce:
        fv = view(F, ce)
        good = False
        for s in fv.exit_sites():
            if s["kind"] == "call" and re.search(r"Choice as core::ops::BitAnd>::bitand$", cname(s["term"])):
                pairs = set()
                for a_ in s["term"]["args"]:
                    t = rc(fv, a_, r"ConstantTimeEq.*::ct_eq$")
                    if t:
                        sides = []
                        for o in t["args"]:
                            m = rc(fv, o, r"ops::Mul.*::mul$")
                            if m:
                                sides.append(frozenset(root(fv, q)[1:] for q in m["args"]))
                        pairs.add(frozenset(sides))
                want = {frozenset([frozenset([(1, ".%d" % X), (2, ".%d" % Z)]), frozenset([(2, ".%d" % X), (1, ".%d" % Z)])]),
                        frozenset([frozenset([(1, ".%d" % Y), (2, ".%d" % Z)]), frozenset([(2, ".%d" % Y), (1, ".%d" % Z)])])}
                good = pairs == want
        (R.ok if good else R.viol)("C03.equality", I("EdwardsPoint::ct_eq"), "X1*Z2 == X2*Z1 & Y1*Z2 == Y2*Z1" if good else "projective equality is not the two cross-product comparisons joined by &", *(() if good else (fv.loc(),)))

    # ------------------------------------------------------------------ FIELDSET: field-wise writers / assemblers are complete and coordinate-consistent
    n_fw, n_agg = 0, 0
    for f in F.fns.values():
        if "mir" not in f or f["crate"] != "curve25519_dalek" or f.get("derived"):
            continue
        fv = view(F, f)
        # (a) functions that write individual coordinate fields of an EdwardsPoint place (directly or through &mut field)
        written = {}
        for l, ty in enumerate(x["ty"] for x in fv.locals):
            base_ty = re.sub(r"^&(mut )?", "", ty)
            if base_ty != EP:
                continue
            fields = set()
            for bi, b in enumerate(fv.blocks):
                for s in b["s"]:
                    if s[0] == "=" and s[1][0] == l:
                        fk = [e for e in s[1][1] if isinstance(e, list) and e[0] == "f"]
                        if fk:
                            fields.add(fk[0][1])
                    if s[0] == "=" and s[2][0] == "ref" and s[2][1] == "mut" and s[2][2][0] == l:
                        fk = [e for e in s[2][2][1] if isinstance(e, list) and e[0] == "f"]
                        if fk:
                            fields.add(fk[0][1])
            if fields:
                written[l] = fields
        for l, fields in written.items():
            n_fw += 1
            key = short(f) + ":field-writes"
            good = fields == {X, Y, Z, T}
            (R.ok if good else R.viol)("C03.fieldset.writes", I(key), "all four coordinates written" if good else
                                       "an EdwardsPoint is mutated field-wise but only coordinates %s are written (X*Y = Z*T can break)" % sorted(fields), *(() if good else (fv.loc(),)))
        # (b) aggregates whose operands are per-coordinate selections/negations of input points: coordinate i from coordinate i
        for bi, b in enumerate(fv.blocks):
            for s in b["s"]:
                if s[0] == "=" and s[2][0] == "agg" and s[2][1][0] == "adt" and s[2][1][1] == EP:
                    n_agg += 1
                    ops = s[2][2]
                    sel = [rc(fv, o, r"ConditionallySelectable.*::conditional_select$") for o in ops]
                    if all(sel):
                        good = True
                        choice = None
                        for i, t in enumerate(sel):
                            ra, rb, rch = root(fv, t["args"][0]), root(fv, t["args"][1]), root(fv, t["args"][2])
                            if not (ra[0] == rb[0] == "arg" and ra[2] == rb[2] == ".%d" % i and ra[1] != rb[1]):
                                good = False
                            if choice is not None and rch != choice:
                                good = False
                            choice = rch
                        (R.ok if good else R.viol)("C03.fieldset.select", I(short(f)), "coordinate i selected from coordinate i of both inputs under one choice" if good else
                                                   "conditional selection mixes coordinates or choices", *(() if good else (fv.loc(s[3]),)))
    R.floor("C03.fieldset", I("EdwardsPoint aggregate sites inventoried"), n_agg, 7)
    R.floor("C03.fieldset.writes", I("field-wise writers"), n_fw, 1)
    formulas(F, R, I, a["variants"][0]["fields"][X]["ty"])
    import formula_rules as FRs
    ns = 0
    for inst, f_, ok, msg in FRs.point_sums(F, r"edwards::EdwardsPoint"):
        ns += 1
        (R.ok if ok else R.viol)("C03.sum", I(inst), msg, *(() if ok else (F.loc(f_),)))
    R.floor("C03.sum", I("Sum impls decided"), ns, 1)

    # ------------------------------------------------------------------ identity, negation, predicates
    idf = fn(None, self_ty="^%s$" % EP, trait=r"traits::Identity$", name="identity")
    if idf:
        fv = view(F, idf)
        good = False
        for s in fv.exit_sites():
            if s["kind"] == "agg":
                names = [const_name(fv, o).split("::")[-1] for o in s["ops"]]
                good = [names[X], names[Y], names[Z], names[T]] == ["ZERO", "ONE", "ONE", "ZERO"]
        (R.ok if good else R.viol)("C03.identity", I("EdwardsPoint::identity"), "(0,1,1,0)" if good else "identity is not (X,Y,Z,T) = (0,1,1,0)", *(() if good else (fv.loc(),)))
    ng = fn(None, self_ty="^&.*%s$" % EP, trait=r"ops::Neg$", name="neg")
    if ng:
        fv = view(F, ng)
        good = False
        for s in fv.exit_sites():
            if s["kind"] == "agg":
                nx, nt = rc(fv, s["ops"][X], r"ops::Neg.*::neg$"), rc(fv, s["ops"][T], r"ops::Neg.*::neg$")
                good = bool(nx) and bool(nt) and root(fv, nx["args"][0]) == ("arg", 1, ".%d" % X) and root(fv, nt["args"][0]) == ("arg", 1, ".%d" % T) \
                    and root(fv, s["ops"][Y]) == ("arg", 1, ".%d" % Y) and root(fv, s["ops"][Z]) == ("arg", 1, ".%d" % Z)
        (R.ok if good else R.viol)("C03.neg", I("-&EdwardsPoint"), "(-X, Y, Z, -T)" if good else "negation is not (-X, Y, Z, -T)", *(() if good else (fv.loc(),)))
    mc = fn("curve25519_dalek::edwards::EdwardsPoint::mul_by_cofactor")
    if mc:
        fv = view(F, mc)
        good = any(s["kind"] == "call" and re.search(r"EdwardsPoint::mul_by_pow_2$", cname(s["term"])) and (op_const(s["term"]["args"][1]) or {}).get("v") == 3 and root(fv, s["term"]["args"][0])[:2] == ("arg", 1)
                   for s in fv.exit_sites())
        (R.ok if good else R.viol)("C03.cofactor", I("mul_by_cofactor"), "mul_by_pow_2(3) = [8]P" if good else "mul_by_cofactor is not mul_by_pow_2(3)", *(() if good else (fv.loc(),)))
    so = fn("curve25519_dalek::edwards::EdwardsPoint::is_small_order")
    if so:
        fv = view(F, so)
        good = any(s["kind"] == "call" and re.search(r"IsIdentity>::is_identity$", cname(s["term"])) and rc(fv, s["term"]["args"][0], r"EdwardsPoint::mul_by_cofactor$") is not None for s in fv.exit_sites())
        (R.ok if good else R.viol)("C03.small_order", I("is_small_order"), "[8]P == identity" if good else "is_small_order is not mul_by_cofactor().is_identity()", *(() if good else (fv.loc(),)))
    tf = fn("curve25519_dalek::edwards::EdwardsPoint::is_torsion_free")
    if tf:
        fv = view(F, tf)
        good = False
        for s in fv.exit_sites():
            if s["kind"] == "call" and re.search(r"IsIdentity>::is_identity$", cname(s["term"])):
                m = rc(fv, s["term"]["args"][0], r"ops::Mul.*::mul$")
                if m:
                    cs = [const_name(fv, o) for o in m["args"]]
                    rs = [root(fv, o)[:2] for o in m["args"]]
                    good = any(c.endswith("constants::BASEPOINT_ORDER_PRIVATE") or c.endswith("constants::BASEPOINT_ORDER") for c in cs) and ("arg", 1) in rs
        (R.ok if good else R.viol)("C03.torsion_free", I("is_torsion_free"), "[l]P == identity (l checked under C12)" if good else "is_torsion_free is not (self * BASEPOINT_ORDER).is_identity()", *(() if good else (fv.loc(),)))
    # add / sub / double delegate to the matching curve-model operation
    for trait, op, conv in ((r"ops::Add<&.*EdwardsPoint>$", "add", r"as_projective_niels$"), (r"ops::Sub<&.*EdwardsPoint>$", "sub", r"as_projective_niels$")):
        g = [f for f in F.fns.values() if "mir" in f and re.search(r"^&.*%s$" % EP, f.get("self_ty") or "") and re.search(trait, f.get("trait") or "") and f.get("name") == op]
        if len(g) != 1:
            R.anchor_missing("C03.group_ops", I("&EdwardsPoint %s &EdwardsPoint" % op))
            continue
        fv = view(F, g[0])
        good = False
        for s in fv.exit_sites():
            if s["kind"] == "call" and re.search(r"CompletedPoint::as_extended$", cname(s["term"])):
                t = rc(fv, s["term"]["args"][0], r"ops::%s.*::%s$" % (op.capitalize(), op))
                if t:
                    c = rc(fv, t["args"][1], conv)
                    good = root(fv, t["args"][0])[:2] == ("arg", 1) and c is not None and root(fv, c["args"][0])[:2] == ("arg", 2)
        (R.ok if good else R.viol)("C03.group_ops", I("&EdwardsPoint %s &EdwardsPoint" % op), "(self %s other.as_projective_niels()).as_extended()" % ("+" if op == "add" else "-") if good else
                                   "%s does not delegate to the matching curve-model %s" % (op, op), *(() if good else (fv.loc(),)))
    db = fn("curve25519_dalek::edwards::EdwardsPoint::double")
    if db:
        fv = view(F, db)
        good = False
        for s in fv.exit_sites():
            if s["kind"] == "call" and re.search(r"CompletedPoint::as_extended$", cname(s["term"])):
                t = rc(fv, s["term"]["args"][0], r"ProjectivePoint::double$")
                c = rc(fv, t["args"][0], r"EdwardsPoint::as_projective$") if t else None
                good = c is not None and root(fv, c["args"][0])[:2] == ("arg", 1)
        (R.ok if good else R.viol)("C03.group_ops", I("EdwardsPoint::double"), "as_projective().double().as_extended()" if good else "double does not delegate to the projective doubling", *(() if good else (fv.loc(),)))


FORMULA_OK = {}
_CODEC = {}


def codec_results(F, fe_ty):
    if id(F) not in _CODEC:
        import formula_rules as FR
        _CODEC[id(F)] = list(FR.codec(F, fe_ty))
        for inst, f, ok, msg in _CODEC[id(F)]:
            FORMULA_OK[(id(F), inst)] = bool(ok and f)
    return _CODEC[id(F)]


def formulas(F, R, I, fe_ty):
    """FORMULA domain (lib/eng_formula.py, lib/formula_rules.py): the serial curve-model formulas against the twisted Edwards addition law"""
    import formula_rules as FR
    n = 0
    import itertools
    for inst, f, ok, msg in itertools.chain(FR.run_cases(F, fe_ty), codec_results(F, fe_ty)):
        n += 1 if f else 0
        if ok:
            R.ok("C03.formula", I(inst), msg)
        else:
            R.viol("C03.formula", I(inst), msg, F.loc(f) if f else "")
    R.floor("C03.formula", I("curve-model formulas decided against the addition law"), n, 24)
    for backend in ("avx2", "ifma"):
        if not any(re.search(r"backend::vector::%s::edwards::ExtendedPoint$" % backend, p) for p in F.adts):
            continue
        nv = 0
        for inst, f, ok, msg in FR.vector_cases(F, fe_ty, backend):
            nv += 1 if f else 0
            if ok:
                R.ok("C03.formula", I(inst), msg)
            else:
                R.viol("C03.formula", I(inst), msg, F.loc(f) if f else "")
        R.floor("C03.formula", I("%s parallel formulas decided against the addition law" % backend), nv, 9)


def short(f):
    p = f["path"].replace("curve25519_dalek::", "")
    if f.get("trait"):
        p = "<%s as %s>::%s" % ((f.get("self_ty") or "").split("::")[-1], re.sub(r"<.*", "", f["trait"]).split("::")[-1], f["name"])
    return p


def compress_shape(fv, X, Y, Z):
    sites = fv.exit_sites()
    if len(sites) != 1 or sites[0]["kind"] != "agg":
        return False, "compress does not end in a single CompressedEdwardsY(..) aggregate"
    r = root(fv, sites[0]["ops"][0])
    if r[0] != "local":
        return False, "encoded bytes are not a local buffer"
    s = r[1]
    whole = [d for d in fv.defs.get(s, []) if not d.proj and not d.via_mutref]
    stores = [d for d in fv.defs.get(s, []) if d.proj]
    enc = None
    if len(whole) == 1:
        if whole[0].kind == "call" and re.search(r"field::FieldElement\w+::as_bytes$", cname(whole[0].term)):
            enc = whole[0].term
        elif whole[0].kind == "assign" and whole[0].rv[0] == "use":
            enc = rc(fv, whole[0].rv[1], r"field::FieldElement\w+::as_bytes$")
    if enc is None:
        return False, "buffer is not initialised by the canonical field encoder as_bytes(y)"
    ymul = rc(fv, enc["args"][0], r"ops::Mul.*::mul$")
    if not ymul:
        return False, "encoded value is not Y * (1/Z)"
    inv = [rc(fv, o, r"field::.*::invert$") for o in ymul["args"]]
    inv = [t for t in inv if t]
    if len(inv) != 1 or root(fv, inv[0]["args"][0]) != ("arg", 1, ".%d" % Z) or ("arg", 1, ".%d" % Y) not in [root(fv, o) for o in ymul["args"]]:
        return False, "encoded value is not Y * invert(Z)"
    if len(stores) != 1:
        return False, "expected exactly one in-place update of the encoding (the sign bit)"
    d = stores[0]
    from mirlib import _expr_rv
    e = ex.strip(_expr_rv(fv, d.rv, 14))
    idxv = None
    pr = d.proj[0]
    if pr[0] == "ci":
        idxv = pr[1]
    elif pr[0] == "i":
        ie = ex.strip(expr_of(fv, ["c", [pr[1], []]]))
        idxv = ie[1] if ie[0] == "const" else None
    if idxv != 31 or not (e[0] == "bin" and e[1] == "BitXor"):
        return False, "sign is not XORed into byte 31"
    for a, b in ((e[2], e[3]), (e[3], e[2])):
        b = ex.strip(b)
        if b[0] == "bin" and b[1] == "Shl" and ex.is_const(b[3], 7):
            neg = ex.find(b[2], lambda x: x[0] == "call" and re.search(r"::is_negative$", x[1]))
            if neg:
                xm = ex.strip(neg[0][2][0])
                if ex.is_call(xm, r"ops::Mul.*::mul$"):
                    args = [ex.strip(q) for q in ex.call_args(xm)]
                    if any(ex.is_arg(q, 1, r"\.%d" % X) for q in args) and any(ex.is_call(q, r"::invert$") and ex.is_arg(ex.call_args(q)[0], 1, r"\.%d" % Z) for q in args):
                        return True, "as_bytes(Y/Z) with byte 31 ^= is_negative(X/Z) << 7"
    return False, "sign bit is not is_negative(X * invert(Z)) << 7"
