"""C09 - Ed25519 verification accepts exactly the documented set (structural: every success exit of
every verification entry point is dominated by the documented checks; challenge hashing order; key decoding)."""
import re
import ctx
from mirlib import view, cname, expr_of, op_local
from pathlib2 import Guard, established, success_sites, paths, call_sequence, lookup_callee, dominated
import ex

LEVEL = "other"
TECHNIQUE = ("PATH: must-pass-through (edge-removal reachability) of each documented check's success edge before every success exit of "
             "every verification entry point, followed through delegation to callees; data-dependence (expression trees over resolved MIR) of the "
             "compared/hashed values; ORDER of digest updates on every CFG path; evaluated for default and legacy_compatibility builds")

DOM2 = b"SigEd25519 no Ed25519 collisions"


def field_index(F, adt, name):
    a = F.adts.get(adt)
    if not a:
        return None
    for i, f in enumerate(a["variants"][0]["fields"]):
        if f["name"] == name:
            return i
    return None


def run(tier, R):
    cfgs = [("simd", "release"), ("simd-legacy", "release")]
    if tier == "thorough":
        cfgs += [("serial64", "release"), ("notables", "release")]
    FS = ctx.facts_for(R, cfgs)
    R.trust("rustc MIR construction and Instance::try_resolve; mirfacts exporter; lib/mirlib.py reachability and slices")
    R.assume("vartime_double_scalar_mul_basepoint(a, A, b) = aA + bB (C04 LINCOMB) and compress is the canonical encoding (C03 formula); C09.sem gives them exactly that meaning")
    for (cfg, mode), F in FS.items():
        check_cfg(F, R, cfg, legacy=(cfg == "simd-legacy"))


_SEM = {}


def sem_results(F):
    if id(F) not in _SEM:
        import sig_rules as SR
        _SEM[id(F)] = list(SR.verify_rules(F)) + (list(SR.prehashed_verify_rules(F)) if F.has_cfg("feature=digest") else [])
    return _SEM[id(F)]


def sem_equation_ok(F):
    eq = [st for entry, clause, f, st, msg in sem_results(F) if clause.startswith("equation")]
    return len(eq) >= 2 and all(st == "ok" for st in eq)


def sem_requality_ok(F):
    """every verifier's equation and reject_mismatch clauses hold semantically"""
    rs = sem_results(F)
    eq = [st for entry, c, f, st, msg in rs if c.startswith("equation")]
    mm = [st for entry, c, f, st, msg in rs if c == "reject_mismatch"]
    need = 4 if F.has_cfg("feature=digest") else 2
    return len(mm) >= need and all(st == "ok" for st in mm) and len(eq) >= need and all(st == "ok" for st in eq)


def sem_strict_ok(F):
    """the strict clauses of every strict verifier present hold semantically (SigningKey::verify_strict forwards to VerifyingKey::verify_strict)"""
    rs = sem_results(F)
    need = 2 if F.has_cfg("feature=digest") else 1
    for clause in ("reject_R", "reject_small_order", "small_order_args"):
        sts = [st for entry, c, f, st, msg in rs if c == clause and entry.endswith("strict")]
        if len(sts) < need or not all(st == "ok" for st in sts):
            return False
    return True


def sem_challenge_ok(F):
    rs = sem_results(F)
    eq = [st for entry, clause, f, st, msg in rs if clause.startswith("equation")]
    long_ = [st for entry, clause, f, st, msg in rs if clause == "reject_long_context"]
    return len(eq) >= 8 and all(st == "ok" for st in eq) and len(long_) == 2 and all(st == "ok" for st in long_)


def semantic(F, R, I, legacy):
    """BATCHEQ domain (lib/sig_rules.py): the verification equation and the rejection scenarios of verify / verify_strict on a symbolic key, message and signature"""
    import sig_rules as SR
    n = 0
    for entry, clause, f, status, msg in sem_results(F):
        inst = I("%s:%s" % (entry, clause))
        if legacy and clause == "reject_S":
            continue        # the legacy build deliberately accepts some non-canonical S (C09.legacy_S decides that it does so only there)
        if status == "ok":
            n += 1
            R.ok("C09.sem", inst, msg)
        elif status == "viol":
            n += 1
            R.viol("C09.sem", inst, msg, F.loc(f) if f else "")
        elif status == "missing":
            R.anchor_missing("C09.sem", inst, msg)
        else:
            R.note("C09.sem %s inconclusive (%s): the structural rules decide" % (inst, msg[:160]))
    R.floor("C09.sem", I("verification clauses decided on symbolic inputs"), n, (9 if legacy else 11) + (13 if F.has_cfg("feature=digest") else 0))


def check_cfg(F, R, cfg, legacy):
    I = lambda s: "%s:%s" % (cfg, s)
    VK = "ed25519_dalek::verifying::VerifyingKey"
    IS = "ed25519_dalek::signature::InternalSignature"
    r_idx, s_idx = field_index(F, IS, "R"), field_index(F, IS, "s")
    comp_idx, point_idx = field_index(F, VK, "compressed"), field_index(F, VK, "point")
    if None in (r_idx, s_idx, comp_idx, point_idx):
        R.anchor_missing("C09.anchor", I("fields of InternalSignature / VerifyingKey"))
        return

    def fn(path, **kw):
        try:
            return F.fn(path, **kw)
        except LookupError as e:
            R.anchor_missing("C09.anchor", I(path or str(kw)), str(e)[:200])
            return None

    # ---------------------------------------------------------------- canonical S
    check_scalar = fn("ed25519_dalek::signature::check_scalar")
    from_bytes = fn("ed25519_dalek::signature::InternalSignature::from_bytes")
    try_from = fn(None, self_ty=r"^ed25519_dalek::signature::InternalSignature$", trait=r"TryFrom<&ed25519::Signature>", name="try_from")
    if check_scalar:
        fv = view(F, check_scalar)
        if not legacy:
            g = Guard("Scalar::from_canonical_bytes(bytes) is Some", r"curve25519_dalek::(scalar::)?Scalar::from_canonical_bytes$", want=1,
                      arg_pred=lambda fv, t: ex.is_arg(expr_of(fv, t["args"][0]), 1, ""))
            ok, why = established(F, check_scalar, [g])
            (R.ok if ok else R.viol)("C09.canonical_S", I("check_scalar"), "Ok only after from_canonical_bytes(input) is Some" if ok else why,
                                     *(() if ok else (fv.loc(),)))
            # payload of Ok is the scalar returned by that call; no unreduced constructor reachable
            bad = [cname(t) for _, t in fv.calls if re.search(r"Scalar::(from_bits|from_bytes_mod_order|from_bits_clamped)", cname(t))]
            for s in success_sites(fv):
                if s["kind"] == "agg":
                    e = expr_of(fv, s["ops"][0])
                    if not ex.mentions_call(e, r"Scalar::from_canonical_bytes$"):
                        bad.append("Ok payload = " + ex.show(e))
            (R.viol if bad else R.ok)("C09.canonical_S.payload", I("check_scalar"),
                                      ("accepted scalar does not come from the canonical decoder: %s" % bad) if bad else "Ok payload is the canonical decoder's value; no from_bits/mod_order call",
                                      *((fv.loc(),) if bad else ()))
        else:
            # legacy: Ok dominated by the false edge of (input[31] & 224) != 0, computed from the *input bytes* with no call in between
            edges = []
            for bi, b in enumerate(fv.blocks):
                t = b.get("t")
                if not t or t["k"] != "switch":
                    continue
                e = expr_of(fv, t["discr"])
                pol = legacy_mask_test(e)
                if pol is None:
                    continue
                # pol = value of the discriminant that means "top three bits clear"
                for v, tb in t["targets"]:
                    if v == pol:
                        edges.append((bi, tb, ("sw", v)))
                if pol != 0 and {v for v, _ in t["targets"]} == {0}:
                    edges.append((bi, t["otherwise"], ("sw", "otherwise")))
            sites = [s["bb"] for s in success_sites(fv)]
            ok = bool(sites) and bool(edges) and dominated(fv, sites, edges)
            (R.ok if ok else R.viol)("C09.legacy_S", I("check_scalar"),
                                     "Ok only when (input[31] & 224) == 0 tested on the input bytes" if ok else
                                     "legacy check_scalar: success not dominated by the test (bytes[31] & 224) == 0 applied to the *input* bytes (mask constant, byte index or operand changed)",
                                     *(() if ok else (fv.loc(),)))
            for s in success_sites(fv):
                if s["kind"] == "agg":
                    e = expr_of(fv, s["ops"][0])
                    good = ex.is_call(e, r"Scalar::from_bits$") and ex.is_arg(ex.call_args(e)[0], 1, "")
                    (R.ok if good else R.viol)("C09.legacy_S.payload", I("check_scalar"), "Ok payload = from_bits(input)" if good else
                                               "legacy Ok payload is not from_bits(input): " + ex.show(e), *(() if good else (fv.loc(),)))
    if from_bytes and check_scalar:
        fv = view(F, from_bytes)
        g = Guard("check_scalar(bytes[32..64]) is Ok", r"ed25519_dalek::signature::check_scalar$", want=1)
        ok, why = established(F, from_bytes, [g])
        (R.ok if ok else R.viol)("C09.canonical_S", I("InternalSignature::from_bytes"), "Ok only after check_scalar succeeded" if ok else why, *(() if ok else (fv.loc(),)))
        # aggregate: s = the checked scalar of bytes[32..64], R = bytes[0..32]
        for s in success_sites(fv):
            if s["kind"] != "agg":
                continue
            inner = expr_of(fv, s["ops"][0])
            inner = ex.strip(inner)
            good = False
            msg = "Ok payload is not an InternalSignature aggregate"
            if inner[0] == "agg" and inner[1][0] == "adt" and inner[1][1] == IS:
                e_R, e_s = inner[2][r_idx], inner[2][s_idx]
                sl_s = slice_ranges(fv, e_s)
                sl_R = slice_ranges(fv, e_R)
                good = ex.mentions_call(e_s, r"signature::check_scalar$") and not ex.mentions_call(e_R, r"check_scalar") \
                    and (32, 64) in sl_s and (0, 32) in sl_R
                msg = "s <- check_scalar(bytes[32..64]) and R <- bytes[0..32]" if good else \
                    "InternalSignature fields not built from R=bytes[0..32], s=check_scalar(bytes[32..64]); ranges seen: R %s, s %s" % (sorted(sl_R), sorted(sl_s))
            if not good and sem_equation_ok(F):
                good, msg = True, ("structural form not recognised; decided by C09.sem: every verification equation compares with signature bytes [0..32] as R and uses the "
                                   "scalar decoded from signature bytes [32..64] as s")
            (R.ok if good else R.viol)("C09.split", I("InternalSignature::from_bytes"), msg, *(() if good else (fv.loc(),)))
    if try_from and from_bytes:
        fv = view(F, try_from)
        g = Guard("never", r"^$")
        ok, why = established(F, try_from, [Guard("check_scalar(bytes[32..64]) is Ok", r"ed25519_dalek::signature::check_scalar$", want=1)])
        (R.ok if ok else R.viol)("C09.canonical_S", I("InternalSignature::try_from"), "delegates to from_bytes/check_scalar" if ok else why, *(() if ok else (fv.loc(),)))

    # ---------------------------------------------------------------- entry points
    entries = []
    for f in F.fns.values():
        if f["crate"] != "ed25519_dalek" or "mir" not in f or f["kind"] == "Closure":
            continue
        nm = f.get("name", "")
        out = f.get("output", "")
        if re.match(r"(raw_)?verify", nm) and nm != "verify_batch" and out.startswith("core::result::Result<(), ") and nm != "verifying_key":
            entries.append(f)
    R.floor("C09.entries", I("verification entry points"), len(entries), 12)

    G_S = Guard("InternalSignature::try_from(signature) is Ok",
                r"ed25519_dalek::signature::InternalSignature as core::convert::TryFrom<&ed25519::Signature>>::try_from$", want=1)

    def req_pred(fv, t):
        a, b = expr_of(fv, t["args"][0]), expr_of(fv, t["args"][1])
        for x, y in ((a, b), (b, a)):
            if ex.mentions_call(x, r"VerifyingKey::recompute_R") and not ex.mentions_call(y, r"recompute_R") \
                    and ex.mentions_call(y, r"InternalSignature as core::convert::TryFrom") and last_field(y) == r_idx:
                return True
        return False

    G_R = Guard("recompute_R(..) == signature.R (byte comparison of CompressedEdwardsY)",
                r"<curve25519_dalek::edwards::CompressedEdwardsY as core::cmp::PartialEq>::eq$", want=1, arg_pred=req_pred,
                alt=[(r"<curve25519_dalek::edwards::CompressedEdwardsY as core::cmp::PartialEq>::ne$", 0)])
    # the byte comparison is the derived structural equality on [u8; 32]
    eqf = [f for f in F.fns.values() if f.get("self_ty") == "curve25519_dalek::edwards::CompressedEdwardsY"
           and re.search(r"cmp::PartialEq$", f.get("trait") or "") and f.get("name") == "eq"]
    if len(eqf) == 1 and eqf[0].get("derived"):
        R.ok("C09.R_bytes_eq", I("CompressedEdwardsY: derived PartialEq"), "structural equality on the 32 bytes")
    else:
        R.anchor_missing("C09.R_bytes_eq", I("derived PartialEq for CompressedEdwardsY"), "comparison of R must be on canonical bytes")

    def rsmall_pred(fv, t):
        e = expr_of(fv, t["args"][0])
        return ex.mentions_call(e, r"CompressedEdwardsY::decompress$") and ex.mentions_call(e, r"InternalSignature as core::convert::TryFrom")

    def asmall_pred(fv, t):
        e = ex.strip(expr_of(fv, t["args"][0]))
        return ex.is_arg(e, 1, r"\.%d" % point_idx)

    def rdec_pred(fv, t):
        e = expr_of(fv, t["args"][0])
        return ex.mentions_call(e, r"InternalSignature as core::convert::TryFrom") and last_field(e) == r_idx

    G_Rdec = Guard("signature.R.decompress() is Some", r"curve25519_dalek::edwards::CompressedEdwardsY::decompress$", want=1, arg_pred=rdec_pred)
    G_Rsmall = Guard("!signature_R.is_small_order()", r"curve25519_dalek::(edwards::)?EdwardsPoint::is_small_order$", want=0, arg_pred=rsmall_pred)
    G_Asmall = Guard("!self.point.is_small_order()", r"curve25519_dalek::(edwards::)?EdwardsPoint::is_small_order$", want=0, arg_pred=asmall_pred)

    for f in sorted(entries, key=lambda f: f["key"]):
        nm = short(f)
        fv = view(F, f)
        for rule, g in (("C09.canonical_S", G_S), ("C09.R_equality", G_R)):
            ok, why = established(F, f, [g], memo={})
            if not ok and rule == "C09.R_equality" and sem_requality_ok(F) and \
                    (re.search(r"verifying::VerifyingKey(::| as [\w:<>]+>::)(verify|verify_strict|verify_prehashed|verify_prehashed_strict|raw_verify|raw_verify_prehashed)$", f["path"]) or
                     re.search(r"-> (<)?ed25519_dalek::verifying::VerifyingKey(::| as [\w:<>]+>::)(verify|verify_strict|verify_prehashed|verify_prehashed_strict|raw_verify|raw_verify_prehashed):? ", (why or "") + " ")):
                R.ok(rule, I(nm), "structural form not recognised (the comparison was moved); decided by C09.sem: in every verifier the only comparison is compress(s B - k A) with the "
                     "signature's R bytes and a failed comparison gives Err only")
                continue
            (R.ok if ok else R.viol)(rule, I(nm), ("every Ok exit dominated by: " + g.name) if ok else why, *(() if ok else (fv.loc(),)))
        if "strict" in f.get("name", ""):
            for rule, g in (("C09.strict.R_decodes", G_Rdec), ("C09.strict.R_small_order", G_Rsmall), ("C09.strict.A_small_order", G_Asmall)):
                ok, why = established(F, f, [g], memo={})
                covered = re.search(r"verifying::VerifyingKey::verify_(prehashed_)?strict$", f["path"]) or \
                    re.search(r"-> ed25519_dalek::verifying::VerifyingKey::verify_(prehashed_)?strict:", why or "")
                if not ok and covered and sem_strict_ok(F):
                    # the dominance form is not recognised (e.g. the strict tests were moved into a helper): the behaviour is decided by C09.sem
                    R.ok(rule, I(nm), "structural form not recognised; decided by C09.sem: in verify_strict and verify_prehashed_strict an undecodable R, a small-order R and a "
                         "small-order A each give Err only, and is_small_order is applied to the decoded R and to A")
                    continue
                (R.ok if ok else R.viol)(rule, I(nm), ("every Ok exit dominated by: " + g.name) if ok else why, *(() if ok else (fv.loc(),)))
    stricts = [f for f in entries if "strict" in f.get("name", "")]
    R.floor("C09.entries", I("strict entry points"), len(stricts), 3)

    # ---------------------------------------------------------------- recompute_R data flow, argument wiring in the cores
    rec = fn("ed25519_dalek::verifying::VerifyingKey::recompute_R")
    if rec:
        fv = view(F, rec)
        e = None
        for s in fv.exit_sites():
            if s["kind"] == "call":
                e = ("call", cname(s["term"]), [expr_of(fv, a) for a in s["term"]["args"]])
        good, msg = False, "recompute_R does not return compress(vartime_double_scalar_mul_basepoint(k, -A, s))"
        if e and ex.is_call(e, r"EdwardsPoint::compress$"):
            inner = ex.strip(ex.call_args(e)[0], through_calls=False)
            if ex.is_call(inner, r"EdwardsPoint::vartime_double_scalar_mul_basepoint$"):
                a, A, b = ex.call_args(inner)
                k_ok = ex.is_call(a, r"VerifyingKey::compute_challenge")
                A_ok = ex.is_call(A, r"EdwardsPoint as core::ops::Neg>::neg$") and ex.is_arg(ex.call_args(ex.strip(A, False))[0], 1, r"\.%d" % point_idx)
                b_ok = ex.is_arg(b, 3, r"\.%d" % s_idx)
                if k_ok:
                    ca = ex.call_args(ex.strip(a, False))
                    k_ok = ex.is_arg(ca[0], 2) and ex.is_arg(ca[1], 3, r"\.%d" % r_idx) and ex.is_arg(ca[2], 1, r"\.%d" % comp_idx) and ex.is_arg(ca[3], 4)
                good = k_ok and A_ok and b_ok
                msg = "compress([k](-self.point) + [signature.s]B), k = H(ctx, signature.R, self.compressed, M)" if good else \
                    "recompute_R wiring wrong: k<-compute_challenge(context, sig.R, self.compressed, M) %s; A<- -self.point %s; b<-signature.s %s; got %s" % (
                        k_ok, A_ok, b_ok, ex.show(e, 6))
        if not good and sem_equation_ok(F):
            # the structural form is not recognised but the equation is decided semantically (both entry points reach recompute_R)
            R.ok("C09.recompute_R", I("recompute_R"), "structural form not recognised; decided by C09.sem verify:equation and verify_strict:equation")
        else:
            (R.ok if good else R.viol)("C09.recompute_R", I("recompute_R"), msg, *(() if good else (fv.loc(),)))
    # cores call recompute_R(self, ctx, &signature(internal), message)
    for f in entries:
        fv = view(F, f)
        for bi, t in fv.find_calls(r"VerifyingKey::recompute_R"):
            a = [expr_of(fv, x) for x in t["args"]]
            good = ex.is_arg(a[0], 1) and ex.mentions_call(a[2], r"InternalSignature as core::convert::TryFrom")
            # message: from a parameter (message, or the finalized prehash parameter)
            msg_args = [x for x in ex.find(a[3], lambda x: x[0] == "arg")]
            good = good and bool(msg_args) and not any(x[1] == 1 for x in msg_args)
            (R.ok if good else R.viol)("C09.recompute_R.args", I(short(f)),
                                       "recompute_R(self, ctx, parsed signature, message parameter)" if good else
                                       "recompute_R called with unexpected operands: " + ", ".join(ex.show(x) for x in a), *(() if good else (fv.loc(t["line"]),)))

    # ---------------------------------------------------------------- compute_challenge ORDER
    cc = fn("ed25519_dalek::verifying::VerifyingKey::compute_challenge")
    if cc:
        check_challenge_order(F, R, cc, I)

    # ---------------------------------------------------------------- key decoding / VerifyingKey invariant
    vfb = fn("ed25519_dalek::verifying::VerifyingKey::from_bytes")
    if vfb:
        fv = view(F, vfb)
        g = Guard("CompressedEdwardsY(bytes).decompress() is Some", r"CompressedEdwardsY::decompress$", want=1)
        ok, why = established(F, vfb, [g])
        (R.ok if ok else R.viol)("C09.key_decodes", I("VerifyingKey::from_bytes"), "Ok only if the key bytes decompress" if ok else why, *(() if ok else (fv.loc(),)))
    n_agg = 0
    for f in F.fns.values():
        if f["crate"] != "ed25519_dalek" or "mir" not in f or f.get("derived"):
            continue
        fv = view(F, f)
        for bi, b in enumerate(fv.blocks):
            for s in b["s"]:
                if s[0] == "=" and s[2][0] == "agg" and s[2][1][0] == "adt" and s[2][1][1] == VK:
                    n_agg += 1
                    ops = [expr_of(fv, o) for o in s[2][2]]
                    ec, ep = ops[comp_idx], ops[point_idx]
                    good = (ex.mentions_call(ep, r"CompressedEdwardsY::decompress$") and same_source(ec, decompress_arg(ep))) or \
                           (ex.is_call(ec, r"EdwardsPoint::compress$") and same_source(ex.call_args(ex.strip(ec, False))[0], ep))
                    (R.ok if good else R.viol)("C09.key_invariant", I(short(f) + ":VerifyingKey{..}"),
                                               "point and compressed are tied (decompress/compress of each other)" if good else
                                               "VerifyingKey built with unrelated point/compressed: compressed=%s point=%s" % (ex.show(ec), ex.show(ep)),
                                               *(() if good else (fv.loc(s[3]),)))
    R.floor("C09.key_invariant", I("VerifyingKey aggregate sites"), n_agg, 2)
    semantic(F, R, I, legacy)
    # legacy rule must not leak into the default configuration
    if not legacy:
        leak = []
        for f in F.fns.values():
            if f["crate"] == "ed25519_dalek" and "mir" in f:
                for bi, t in view(F, f).calls:
                    if re.search(r"Scalar::from_bits$", cname(t)):
                        leak.append(short(f))
        (R.viol if leak else R.ok)("C09.no_legacy_leak", I("ed25519_dalek"), ("Scalar::from_bits reachable without legacy_compatibility in " + ",".join(leak)) if leak
                                   else "no call to Scalar::from_bits in the default configuration")


def short(f):
    p = f["path"].replace("ed25519_dalek::", "")
    if f.get("trait"):
        p = "<%s as %s>::%s" % (f.get("self_ty", "").split("::")[-1][:60], re.sub(r"<.*", "", f["trait"]).split("::")[-1], f["name"])
        if "Context" in f.get("self_ty", ""):
            p = "Context:" + p
    return p


def last_field(e):
    """index of the last field projection applied in an expression like (call ..)@0.0.1 -> 1"""
    e = ex.strip(e)
    key = None
    if isinstance(e, tuple) and e[0] == "proj":
        key = e[2]
    elif isinstance(e, tuple) and e[0] in ("arg", "local"):
        key = e[2]
    if not key:
        return None
    m = re.findall(r"\.(\d+)", key)
    return int(m[-1]) if m else None


def legacy_mask_test(e):
    """The discriminant is a pure function of input byte 31 (arg1[31]) and constants whose truth table over the 256 byte values is that of
    `(b & 224) == 0` (or its negation): `(b & 224) != 0`, `b >> 5 != 0`, `b < 32`, `b & 0xe0 == 0`, ... ; returns the discriminant value meaning
    'high three bits clear', else None."""
    def ev(x, b):
        x = ex.strip(x)
        if not isinstance(x, tuple):
            raise ValueError
        if x[0] == "const" and isinstance(x[1], int) and not isinstance(x[1], bool):
            return x[1]
        if x[0] == "const" and isinstance(x[1], bool):
            return int(x[1])
        if x[0] == "idx" and ex.is_arg(x[1], 1, "") and ex.is_const(x[2], 31):
            return b
        if x[0] == "un" and x[1] == "Not":
            v = ev(x[2], b)
            return 1 - v if v in (0, 1) else (~v) & 0xff
        if x[0] == "cast":
            return ev(x[-1], b)
        if x[0] == "bin":
            p, q = ev(x[2], b), ev(x[3], b)
            op = x[1].replace("Unchecked", "").replace("WithOverflow", "")
            if op == "BitAnd": return p & q
            if op == "BitOr": return p | q
            if op == "BitXor": return p ^ q
            if op == "Shr": return p >> q
            if op == "Shl": return (p << q) & 0xff
            if op == "Eq": return int(p == q)
            if op == "Ne": return int(p != q)
            if op == "Lt": return int(p < q)
            if op == "Le": return int(p <= q)
            if op == "Gt": return int(p > q)
            if op == "Ge": return int(p >= q)
            if op == "Div" and q: return p // q
        raise ValueError
    try:
        tt = [ev(e, b) for b in range(256)]
    except (ValueError, TypeError, IndexError):
        return None
    clear = [int((b & 224) == 0) for b in range(256)]
    if set(tt) <= {0, 1}:
        if tt == clear:
            return 1
        if tt == [1 - c for c in clear]:
            return 0
    return None


def slice_ranges(fv, e):
    """(from,to) constant ranges of slice-index calls feeding the expression (through copy_from_slice on locals)"""
    out = set()
    # locals mentioned in the expression
    locs = {x[1] for x in ex.find(e, lambda x: x[0] == "local")}
    sl = fv.slice_back(list(locs)) if locs else None
    calls = list(sl.calls) if sl else []
    for t in calls:
        if re.search(r"copy_from_slice", cname(t)):
            src = expr_of(fv, t["args"][1])
            for c in ex.find(src, lambda x: x[0] == "call" and re.search(r"ops::Index<core::ops::Range<usize>>.*::index$", x[1])):
                rng = ex.strip(c[2][1]) if len(c[2]) > 1 else None
                if rng and rng[0] == "agg":
                    vals = [ex.strip(v) for v in rng[2]]
                    if len(vals) == 2 and all(v[0] == "const" for v in vals):
                        out.add((vals[0][1], vals[1][1]))
    return out


def decompress_arg(ep):
    c = ex.find(ep, lambda x: x[0] == "call" and re.search(r"CompressedEdwardsY::decompress$", x[1]))
    return c[0][2][0] if c else None


def same_source(a, b):
    if a is None or b is None:
        return False
    a, b = ex.strip(a), ex.strip(b)
    return a == b or (a[0] in ("local", "arg") and b[0] in ("local", "arg") and a[:2] == b[:2])


def check_challenge_order(F, R, cc, I, rule="C09.challenge_order"):
    fv = view(F, cc)
    ps = paths(fv)
    if ps is None:
        R.viol(rule, I("compute_challenge"), "compute_challenge has a loop or too many paths; ORDER rule cannot be evaluated", fv.loc())
        return
    seen = set()
    for p in ps:
        seq = call_sequence(fv, p, r"Digest>::(update|chain_update)")
        items = []
        for b, t in seq:
            items.append(classify_update(fv, t))
        # the hasher must be finalised into the scalar on this path
        fin = call_sequence(fv, p, r"Scalar::from_hash")
        seen.add((tuple(items), bool(fin)))
    want_plain = (("arg", 2), ("arg", 3), ("arg", 4))
    want_ph = (("bytes", DOM2), ("bytes", b"\x01"), ("len_u8", 1), ("arg", 1)) + want_plain
    got = {s for s, fin in seen}
    good = got == {want_plain, want_ph} and all(fin for _, fin in seen)
    if good:
        R.ok(rule, I("compute_challenge"), "paths hash exactly [R,A,M] and [dom2 prefix 'SigEd25519 no Ed25519 collisions',1,len(ctx),ctx,R,A,M], then from_hash")
    elif rule == "C09.challenge_order" and sem_challenge_ok(F):
        R.ok(rule, I("compute_challenge"), "structural form not recognised; the hashed challenge is decided by C09.sem: every equation clause (no context, 3- and 255-byte contexts) "
             "hashes dom2 || len || ctx || R || A || M exactly and a 256-byte context is rejected")
    else:
        R.viol(rule, I("compute_challenge"), "hash input sequences are %s; expected [R,A,M] and [dom2,1,len,ctx,R,A,M]" % sorted(map(str, got)), fv.loc())


TRANSPARENT_CALL = re.compile(r"::as_bytes$|::as_ref$|::as_slice$|Deref>::deref$|Index<core::ops::RangeFull>.*::index$|Borrow<.*>>::borrow$|::to_bytes$")


def whole_arg(e, depth=0):
    """index of the parameter the expression denotes *entirely* (through reborrows, casts, payload projections and transparent
    accessors such as as_bytes / as_ref), or None - a sub-slice, a function of the parameter, or a mix is not the parameter"""
    e = ex.strip(e, through_calls=False)
    if not isinstance(e, tuple) or depth > 12:
        return None
    if e[0] == "arg":
        return e[1]
    if e[0] in ("cast", "ref", "deref", "copy") and len(e) > 1 and isinstance(e[1], tuple):
        return whole_arg(e[1], depth + 1)
    if e[0] == "proj" and isinstance(e[1], tuple):
        return whole_arg(e[1], depth + 1)          # payload of Some(ctx), field of a wrapper
    if e[0] == "call" and TRANSPARENT_CALL.search(e[1]) and e[2]:
        return whole_arg(e[2][0], depth + 1)
    return None


def classify_update(fv, t):
    e = expr_of(fv, t["args"][1])
    b = ex.const_bytes(e)
    if b is not None:
        return ("bytes", b)
    s = ex.strip(e, through_calls=False)
    while isinstance(s, tuple) and s[0] in ("ref", "deref", "cast", "copy") and len(s) > 1 and isinstance(s[1], tuple):
        s = ex.strip(s[1], through_calls=False)
    if isinstance(s, tuple) and s[0] == "agg" and s[1][0] == "array" and len(s[2]) == 1:
        x = ex.strip(s[2][0], through_calls=False)
        while isinstance(x, tuple) and x[0] == "cast":
            x = ex.strip(x[1], through_calls=False)
        if ex.is_call(x, r"slice::<impl \[u8\]>::len$|\]>::len$"):
            a = whole_arg(ex.call_args(x)[0])
            if a is not None:
                return ("len_u8", a)
        return ("?", ex.show(e))
    a = whole_arg(e)
    if a is not None:
        return ("arg", a)
    return ("?", ex.show(e))
