"""C05 - backend / word size / table features unobservable.  NOT decided: byte-equality of outputs across configurations
(a relational statement about numerical results).  Decided here (necessary conditions):

 DISPATCH  every run-time dispatcher in backend/mod.rs (functions switching on get_selected_backend(), and the methods of the
           VartimePrecomputedStraus wrapper enum) has one arm per compiled backend kind; each arm forwards the dispatcher's own
           parameters, in order, to the routine of the same name in that backend's module (serial / spec_avx2 / spec_avx512ifma),
           and returns its result (converted by the matching wrapper variant only).
 SURFACE   the exported API (function paths with their signatures, outside the backend:: modules) is identical in every backend
           configuration built with the same feature set: a backend choice adds or removes nothing a user can call.
 CONSTS    every backend's constants and tables equal the same mathematical definitions: C12 (cited).
 DIGITS    the serial and vector copies of each algorithm consume the same digit positions of the same recoding: C04 COVER.read (cited).
 LIMBS     neither word size can overflow or leave its limb invariants: C11 (cited).
"""
import re
import ctx
from mirlib import view, cname, expr_of, root
import ex

LEVEL = "other"
TECHNIQUE = ("call-graph / data-flow rule over every run-time dispatch site (arm completeness, same-name sibling, argument order) + set comparison of the exported "
             "API surface across backend configurations, from resolved MIR facts of 6 configurations")

KIND_MODULE = {"Avx2": r"backend::vector::.*spec_avx2\b", "Avx512": r"backend::vector::.*spec_avx512ifma", "Serial": r"backend::serial::"}


def run(tier, R):
    cfgs = ["simd", "serial64", "serial32", "fiat64"]
    if tier == "thorough":
        cfgs += ["fiat32", "ifma", "notables", "notables-serial64"]
    FS = ctx.facts_for(R, [(c, "release") for c in cfgs])
    R.trust("rustc resolution / MIR; mirfacts (exported flag = reachable through pub items from the crate root)")
    R.note("NOT decided: equality of outputs across configurations; see C11 (limbs), C12 (constants), C04 (digit coverage in every copy) for the per-configuration facts")
    for c in cfgs:
        F = FS.get((c, "release"))
        if F is not None and F.has_cfg('curve25519_dalek_backend="simd"') or (F is not None and c in ("simd", "ifma", "notables")):
            dispatch(F, R, c)
    surface(FS, R, cfgs)


# ------------------------------------------------------------------------------------------------------------ DISPATCH
def kinds(F):
    a = F.adts.get("curve25519_dalek::backend::BackendKind")
    return [v["name"] for v in a["variants"]] if a else []


def dispatch(F, R, cfg):
    I = lambda s: "%s:%s" % (cfg, s)
    ks = kinds(F)
    if not ks:
        R.anchor_missing("C05.dispatch", I("BackendKind"))
        return
    n = 0
    for f in sorted(F.fns.values(), key=lambda f: f["key"]):
        if "mir" not in f or f["crate"] != "curve25519_dalek" or not re.match(r"curve25519_dalek::backend::[^:]+$|curve25519_dalek::backend::VartimePrecomputedStraus::", f["path"]):
            continue
        fv = view(F, f)
        sel = [(bi, t) for bi, t in fv.calls if re.search(r"backend::get_selected_backend$", cname(t))]
        name = f["path"].split("::")[-1]
        if name in ("get_selected_backend",):
            continue
        if sel:
            n += 1
            check_switch_dispatch(F, R, I, f, fv, sel[0], ks)
        elif re.search(r"VartimePrecomputedStraus::(len|is_empty|optional_mixed_multiscalar_mul)$", f["path"]):
            n += 1
            check_enum_dispatch(F, R, I, f, fv, ks)
    R.floor("C05.dispatch", I("run-time dispatch functions"), n, 8)


def forwarded_args(fv, t, skip_self=False):
    """for each argument of call t: index of the dispatcher parameter it is (a reborrow / move / variant payload of), else None"""
    out = []
    for a in t["args"]:
        e = ex.strip(expr_of(fv, a, 6))
        while isinstance(e, tuple) and e[0] in ("ref", "deref", "copy") and len(e) > 1 and isinstance(e[1], tuple):
            e = ex.strip(e[1])
        out.append(e[1] if isinstance(e, tuple) and e[0] == "arg" else None)
    return out


def check_switch_dispatch(F, R, I, f, fv, sel, ks):
    name = f["path"].split("::")[-1]
    bi, t = sel
    nxt = fv.blocks[t["target"]]["t"] if t.get("target") is not None else None
    # the switch on the discriminant
    sw = None
    for b in fv.blocks:
        tt = b.get("t")
        if tt and tt["k"] == "switch":
            sw = tt
            break
    if sw is None:
        R.viol("C05.dispatch", I(name + ":switch"), "dispatcher does not switch on the selected backend", F.loc(f))
        return
    arms = {v for v, _ in sw["targets"]}
    if len(arms) + (0 if is_unreachable(fv, sw["otherwise"]) else 1) < len(ks):
        R.viol("C05.dispatch", I(name + ":arms"), "dispatcher has %d arms for %d backend kinds" % (len(arms), len(ks)), F.loc(f))
    else:
        R.ok("C05.dispatch", I(name + ":arms"), "one arm per backend kind (%s)" % ", ".join(ks))
    for v, tb in sw["targets"]:
        kind = ks[v] if v < len(ks) else "?"
        calls = arm_calls(fv, tb)
        tgt = [c for c in calls if re.search(r"backend::(serial|vector)::", cname(c))]
        inst = I("%s:%s" % (name, kind))
        if len(tgt) != 1:
            R.viol("C05.dispatch", inst, "the %s arm calls %d backend routines (expected exactly one)" % (kind, len(tgt)), F.loc(f))
            continue
        c = tgt[0]
        n = cname(c)
        want_mod = KIND_MODULE.get(kind, r"^$")
        callee_name = re.sub(r"::<.*$", "", n).split("::")[-1]
        expect = expected_callee(name)
        okm = bool(re.search(want_mod, n))
        okn = callee_name in expect
        fa = forwarded_args(fv, c)
        oka = fa == list(range(1, fv.nargs + 1))
        if okm and okn and oka:
            R.ok("C05.dispatch", inst, "forwards (%s) to %s" % (", ".join("arg%d" % i for i in fa), short(n)))
        else:
            why = []
            if not okm:
                why.append("callee %s is not in the %s backend's module" % (short(n), kind))
            if not okn:
                why.append("callee %s is not the sibling of %s (expected one of %s)" % (callee_name, name, sorted(expect)))
            if not oka:
                why.append("arguments are not the dispatcher's parameters in order: %s" % (fa,))
            R.viol("C05.dispatch", inst, "; ".join(why), fv.loc(c["line"]))


def expected_callee(dispatcher):
    m = {"variable_base_mul": {"mul"}, "vartime_double_base_mul": {"mul"},
         "straus_multiscalar_mul": {"multiscalar_mul"}, "straus_optional_multiscalar_mul": {"optional_multiscalar_mul"},
         "pippenger_optional_multiscalar_mul": {"optional_multiscalar_mul"}, "new": {"new"}}
    return m.get(dispatcher, {dispatcher})


def arm_calls(fv, start):
    """calls on the straight-line path from block `start` to the join / return"""
    out, seen, cur = [], set(), start
    while cur is not None and cur not in seen:
        seen.add(cur)
        t = fv.blocks[cur].get("t")
        if not t:
            break
        if t["k"] == "call":
            out.append(t)
            cur = t.get("target")
        elif t["k"] in ("goto", "drop"):
            cur = t["target"]
        else:
            break
    return out


def is_unreachable(fv, b):
    t = fv.blocks[b].get("t")
    return bool(t and t["k"] == "unreachable")


def check_enum_dispatch(F, R, I, f, fv, ks):
    name = f["path"].split("::")[-1]
    sw = None
    for b in fv.blocks:
        tt = b.get("t")
        if tt and tt["k"] == "switch":
            sw = tt
            break
    if sw is None:
        # no match on the variants: acceptable when the method only delegates to other wrapper methods of the same type on `self`
        # (`is_empty()` = `self.len() == 0`), which are themselves checked here
        own = [t for _, t in fv.calls if re.search(r"backend::VartimePrecomputedStraus::\w+$", cname(t))]
        foreign = [t for _, t in fv.calls if re.search(r"scalar_mul::|backend::(serial|vector)::", cname(t))]
        if own and not foreign and all(root(fv, t["args"][0])[:2] == ("arg", 1) for t in own):
            R.ok("C05.dispatch", I("precomputed." + name + ":switch"), "delegates to %s on self (each matches on the variants)" % ", ".join(sorted({cname(t).split("::")[-1] for t in own})))
            return
        R.viol("C05.dispatch", I("precomputed." + name + ":switch"), "wrapper method does not match on its variants", F.loc(f))
        return
    arms = {v for v, _ in sw["targets"]}
    if len(arms) + (0 if is_unreachable(fv, sw["otherwise"]) else 1) < len(ks):
        R.viol("C05.dispatch", I("precomputed." + name + ":arms"), "wrapper method has %d arms for %d backend kinds" % (len(arms), len(ks)), F.loc(f))
    else:
        R.ok("C05.dispatch", I("precomputed." + name + ":arms"), "one arm per variant")
    for v, tb in sw["targets"]:
        kind = ks[v] if v < len(ks) else "?"
        calls = [c for c in arm_calls(fv, tb) if re.search(r"backend::(serial|vector)::", cname(c)) or re.search(r"VartimePrecomputedMultiscalarMul>::%s" % name, cname(c))]
        inst = I("precomputed.%s:%s" % (name, kind))
        if len(calls) != 1:
            R.viol("C05.dispatch", inst, "the %s arm calls %d backend routines (expected exactly one)" % (kind, len(calls)), F.loc(f))
            continue
        n = (calls[0].get("resolved") or {}).get("path") or cname(calls[0])
        callee_name = re.sub(r"::<.*$", "", cname(calls[0])).split("::")[-1]
        okm = bool(re.search(KIND_MODULE.get(kind, r"^$"), n))
        fa = forwarded_args(fv, calls[0])
        oka = fa[1:] == list(range(2, fv.nargs + 1)) and fa[0] in (1, None)
        if okm and callee_name == name and oka:
            R.ok("C05.dispatch", inst, "forwards to %s" % short(n))
        else:
            R.viol("C05.dispatch", inst, "arm does not forward to the %s backend's `%s` with the method's parameters in order (callee %s, args %s)" % (kind, name, short(n), fa), fv.loc(calls[0]["line"]))


# ------------------------------------------------------------------------------------------------------------ SURFACE
def surface_of(F):
    out = {}
    for f in F.fns.values():
        if not f.get("exported") or f["kind"] == "Closure":
            continue
        p = f["path"]
        if re.search(r"::backend::|backend::serial::|backend::vector::", p + " " + (f.get("self_ty") or "") + " " + " ".join(f.get("inputs") or []) + " " + (f.get("output") or "")):
            continue      # backend-internal items (`FieldElement51` etc. are type aliases' targets, not part of the documented API)
        out[(f["crate"], p)] = (tuple(f.get("inputs") or ()), f.get("output") or "")
    return out


def surface(FS, R, cfgs):
    base_cfg = cfgs[0]
    base = FS.get((base_cfg, "release"))
    if base is None:
        R.anchor_missing("C05.surface", base_cfg)
        return
    S0 = surface_of(base)
    R.floor("C05.surface", "%s:exported functions" % base_cfg, len(S0), 450)
    for c in cfgs[1:]:
        F = FS.get((c, "release"))
        if F is None:
            continue
        if ("notables" in c) != ("notables" in base_cfg):
            # a different feature set: compare with the matching baseline only
            continue
        S = surface_of(F)
        missing = sorted(k for k in S0 if k not in S)
        extra = sorted(k for k in S if k not in S0)
        changed = sorted(k for k in S0 if k in S and S[k] != S0[k])
        inst = "%s~%s" % (base_cfg, c)
        if not missing and not extra and not changed:
            R.ok("C05.surface", inst, "%d exported functions, identical paths and signatures" % len(S))
        else:
            for kind, ks in (("missing from " + c, missing), ("only in " + c, extra), ("different signature in " + c, changed)):
                for k in ks[:10]:
                    R.viol("C05.surface", "%s:%s" % (inst, k[1][-90:]), "exported function %s::%s is %s: the backend choice is visible in the API" % (k[0], k[1], kind), "")


def short(n):
    return n.replace("curve25519_dalek::", "")[-90:]
