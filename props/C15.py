"""C15 - untrusted input never panics: every panic edge reachable from a byte-consuming public entry point is
discharged (constant / range reasoning) or listed in the reviewed residual table."""
import re
import ctx
from mirlib import view, cname
from eng_panic import Panic

LEVEL = "other"
TECHNIQUE = ("PANIC: call-graph closure (resolved MIR, trait-dispatch over-approximated by all local impls) from every exported function that consumes bytes, "
             "encodings, signatures or Montgomery points (discovered by signature, not listed by hand); every Assert / panicking call on a live path is an obligation, "
             "discharged by constant-index / constant-range / equal-length reasoning or matched against a reviewed residual table keyed by function and construct; "
             "release-mode MIR (checked-mode arithmetic panics are C11's obligations)")

UNTRUSTED_TY = re.compile(r"\[u8|CompressedEdwardsY|CompressedRistretto|montgomery::MontgomeryPoint|MontgomeryPoint|ed25519::Signature|&str|PublicKey|pkcs8::|KeypairBytes|PublicKeyBytes")
ENTRY_NAME = re.compile(r"^(verify\w*|raw_verify\w*|from_slice|from_bytes\w*|decompress|try_from|from_uniform_bytes|hash_from_bytes|from_hash|nonspec_map_to_curve|from_canonical_bytes|"
                        r"from_bytes_mod_order\w*|x25519|to_edwards|to_montgomery|mul_clamped|mul_base_clamped|diffie_hellman|from_keypair_bytes|from|visit_\w+|deserialize|from_repr\w*|from_uniform_bytes|"
                        r"is_weak|to_bytes|as_bytes|was_contributory|from_bits|clamp_integer)$")

# reviewed residuals: (function path regex, kind regex, detail regex, reason)
RESIDUALS = [
]


def entries(F):
    out = []
    for f in F.fns.values():
        if "mir" not in f or f["kind"] == "Closure":
            continue
        if not (f.get("exported") or (f.get("trait") and re.search(r"Visitor|Deserialize|TryFrom|From<|Verifier|DigestVerifier|GroupEncoding|PrimeField|FromUniformBytes", f["trait"]))):
            continue
        if not ENTRY_NAME.match(f.get("name") or ""):
            continue
        tys = " ".join(f.get("inputs") or [l["ty"] for l in f["mir"]["locals"][1:f["mir"]["arg_count"] + 1]])
        if UNTRUSTED_TY.search(tys) or re.match(r"(raw_)?verify", f.get("name") or ""):
            out.append(f)
    return out


def run(tier, R):
    cfgs = [("simd", "release")]
    if tier == "thorough":
        cfgs += [("serial32", "release"), ("serial64", "release"), ("fiat64", "release"), ("ifma", "release"), ("notables", "release"), ("simd-legacy", "release")]
    else:
        cfgs += [("serial32", "release")]
    FS = ctx.facts_for(R, cfgs)
    R.trust("rustc MIR + resolution; mirfacts; lib/eng_panic.py discharger (constant intervals, array lengths from types)")
    R.assume("allocation failure, stack overflow and panics inside user-supplied trait impls (Digest, RngCore, serde formats) are outside the property")
    R.assume("integer-overflow / debug-assertion panics of checked builds are the obligations of C11, not repeated here (release-mode MIR is analysed)")
    for (cfg, mode), F in FS.items():
        check_cfg(F, R, cfg)


def check_cfg(F, R, cfg):
    I = lambda s: "%s:%s" % (cfg, s)
    es = entries(F)
    R.floor("C15.entries", I("untrusted-input entry points"), len(es), 60)
    P = Panic(F)
    P.reach(es)
    P.scan()
    R.floor("C15.reach", I("functions reachable from the entries"), len(P.reached), 250)
    n_ok = n_res = 0
    used = set()
    for e in P.edges:
        f = e["fn"]
        inst = "%s:%s:%s" % (short(f), e["kind"], e["detail"])
        if e["ok"]:
            n_ok += 1
            R.ok("C15.discharged", I(inst), e["why"])
            continue
        res = None
        for i, (fp, kp, dp, why) in enumerate(RESIDUALS):
            if re.search(fp, f["path"]) and re.search(kp, e["kind"]) and re.search(dp, e["detail"]):
                res = (i, why)
                break
        if res:
            n_res += 1
            used.add(res[0])
            R.ok("C15.residual", I(inst), "reviewed: " + res[1])
        else:
            R.viol("C15.panic_edge", I(inst), "reachable panic edge (%s) is neither discharged nor reviewed: %s [%s]; call path: %s" % (
                e["kind"], e["detail"], e["why"], P.call_path(f["key"])), e["loc"])
    R.extra.setdefault("panic_scan", {})[cfg] = {"entries": len(es), "functions_reached": len(P.reached), "edges": len(P.edges), "discharged": n_ok, "residual": n_res}


def short(f):
    p = f["path"].replace("curve25519_dalek::", "").replace("backend::serial::", "")
    if f.get("trait") and f["kind"] != "Closure":
        p = "<%s as %s>::%s" % ((f.get("self_ty") or "").replace("curve25519_dalek::", "").replace("backend::serial::", "").replace("backend::vector::", ""), re.sub(r"<.*", "", f["trait"]).split("::")[-1], f["name"])
    return p
