"""C15 - untrusted input never panics: every panic edge reachable from a byte-consuming public entry point is
discharged (constant / range reasoning) or listed in the reviewed residual table."""
import re
import ctx
from mirlib import view, cname
from eng_panic import Panic
from eng_absint import Driver

LEVEL = "other"
TECHNIQUE = ("PANIC + ABSINT: call-graph closure (resolved MIR, trait-dispatch over-approximated by all local impls) from every exported function that consumes bytes, "
             "encodings, signatures or Montgomery points (discovered by signature, not listed by hand); every Assert / panicking call on a live path is an obligation, "
             "discharged by constant-index / constant-range / equal-length reasoning or matched against a reviewed residual table keyed by function and construct; "
             "release-mode MIR (checked-mode arithmetic panics are C11's obligations)")

UNTRUSTED_TY = re.compile(r"\[u8|CompressedEdwardsY|CompressedRistretto|montgomery::MontgomeryPoint|MontgomeryPoint|ed25519::Signature|&str|PublicKey|pkcs8::|KeypairBytes|PublicKeyBytes")
ENTRY_NAME = re.compile(r"^(verify\w*|raw_verify\w*|from_slice|from_bytes\w*|decompress|try_from|from_uniform_bytes|hash_from_bytes|from_hash|nonspec_map_to_curve|from_canonical_bytes|"
                        r"from_bytes_mod_order\w*|x25519|to_edwards|to_montgomery|mul_clamped|mul_base_clamped|diffie_hellman|from_keypair_bytes|from|visit_\w+|deserialize|from_repr\w*|from_uniform_bytes|"
                        r"is_weak|to_bytes|as_bytes|was_contributory|from_bits|clamp_integer)$")

# reviewed residuals: (function path regex, kind regex, detail regex, reason); keys carry no line numbers
RESIDUALS = [
    (r"edwards::EdwardsPoint::nonspec_map_to_curve$", r"^call:.*expect$", r"^to_edwards\(&elligator_encode",
     "expect() on to_edwards(elligator_encode(..)): elligator_encode returns the u-coordinate of a curve point; to_edwards yields None only through its "
     "`u == -1` test (not a curve point's u) or through decompress() of the birationally mapped y (Some for every curve point): algebraic, outside any static "
     "domain here.  The structural side conditions are checked by rule C15.to_edwards_none (below) on every run"),
    (r"ed25519_dalek::batch::verify_batch::\{closure#0\}$", r"^assert:bounds$", r"PtrMetadata\(&arg1\*\.[012]\*\)",
     "messages[i] / signatures[i] / verifying_keys[i] with i < signatures.len(): the three lengths are equal on this path (verify_batch returns Err before "
     "the closure is built otherwise; that dominance is decided by C13's length-connectivity rule): relational, outside the interval domain"),
    (r"VartimeMultiscalarMul>::optional_multiscalar_mul$|_impl_optional_multiscalar_mul$", r"^call:.*assert_failed|^call:panic$", r"tuple\{",
     "assert_eq! on the two iterators' size hints: verify_batch passes once(..).chain(n items).chain(n items) for both, with n = signatures.len() "
     "(exact-size chains of equal-length vectors): relational equality, outside the interval domain"),
]

# functions whose panic edges are outside the property (see assumptions): none of these consume attacker bytes
OUT_OF_SCOPE = re.compile(r"cpufeatures|get_selected_backend|cpuid_")


def entries(F):
    out = []
    for f in F.fns.values():
        if "mir" not in f or f["kind"] == "Closure":
            continue
        if not (f.get("exported") or (f.get("trait") and re.search(r"Visitor|Deserialize|TryFrom|From<|Verifier|DigestVerifier|GroupEncoding|PrimeField|FromUniformBytes", f["trait"]))):
            continue
        if not ENTRY_NAME.match(f.get("name") or ""):
            continue
        tys = " ".join(f.get("inputs") or [l["ty"] for l in f["mir"]["locals"][1:f["mir"]["arg_count"] + 1]])
        if UNTRUSTED_TY.search(tys) or re.match(r"(raw_)?verify", f.get("name") or ""):
            out.append(f)
    return out


def run(tier, R):
    cfgs = [("simd", "release", "u64"), ("serial32", "release", "u32")]
    if tier == "thorough":
        cfgs += [("serial64", "release", "u64"), ("fiat64", "release", "u64"), ("notables", "release", "u64"), ("simd-legacy", "release", "u64")]
    FS = ctx.facts_for(R, [(c, m) for c, m, _ in cfgs])
    R.trust("rustc MIR + resolution; mirfacts; lib/eng_panic.py inventory; lib/absint.py interval interpreter + library models (lib/absint_models.py)")
    R.assume("allocation failure, stack overflow and panics inside user-supplied trait impls (Digest, RngCore, serde formats) and inside other crates' code are outside the property")
    R.assume("integer-overflow / debug-assertion panics of checked builds are the obligations of C11, not repeated here (release-mode MIR is analysed)")
    R.assume("A3: user-supplied iterators / slices behave as abstract collections; A1/A2 as in C11")
    for (cfg, mode, backend) in cfgs:
        F = FS.get((cfg, mode))
        if F is not None:
            check_cfg(F, R, cfg, backend)
    debug_assertions(R, FS.get(("simd", "release")))


def crate_of_fn(f):
    p = f["path"]
    head = p.split(" as ")[0]
    for c in ("ed25519_dalek", "x25519_dalek"):
        if c + "::" in head or f.get("crate") == c:
            return c
    return None


def debug_assertions(R, Frel):
    """Builds with debug assertions (the default dev profile) must not panic either.  For curve25519-dalek that is C11's proof; for the two
    protocol crates the panic edges that exist only in the checked build (debug_assert!, overflow checks) and are reachable from the
    untrusted-input entry points are inventoried here: each must be discharged by constant reasoning or be listed as reviewed."""
    if Frel is None:
        return
    FS = ctx.facts_for(R, [("simd", "checked")])
    Fc = FS.get(("simd", "checked"))
    if Fc is None:
        return
    I = lambda s: "simd-checked:%s" % s

    def edges(F):
        P = Panic(F)
        P.reach(entries(F))
        P.scan()
        return P
    Pc, Pr = edges(Fc), edges(Frel)
    rel = {(e["fn"]["path"], e["kind"], e["detail"]) for e in Pr.edges}
    n_fn = len([f for f in Pc.reached if crate_of_fn(Fc.fns[f] if isinstance(f, str) else f)]) if Pc.reached else 0
    n = 0
    for e in Pc.edges:
        f = e["fn"]
        if crate_of_fn(f) is None or (f["path"], e["kind"], e["detail"]) in rel:
            continue
        n += 1
        inst = I("%s:%s:%s" % (short(f), e["kind"], e["detail"][:80]))
        if e["ok"]:
            R.ok("C15.debug_assert", inst, e["why"])
        else:
            R.viol("C15.debug_assert", inst, "a panic edge that exists only in builds with debug assertions is reachable from an untrusted-input entry point: %s; call path: %s" % (
                e["detail"], Pc.call_path(f["key"])), e["loc"])
    R.floor("C15.debug_assert", I("functions of ed25519-dalek / x25519-dalek reachable from the entry points in the checked build"), n_fn, 40)
    R.extra.setdefault("debug_assert_scan", {})["checked_only_edges"] = n


_RC = {}


def reached_callers(F, P, key):
    """functions reachable from the entry points that contain a live call resolved to `key`"""
    ck = (id(F), id(P))
    if ck not in _RC:
        from pathlib2 import lookup_callee
        m = {}
        for g in P.reached.values():
            if "mir" not in g:
                continue
            gv = view(F, g)
            live = gv.live_blocks()
            for bi, t in gv.calls:
                if bi not in live or gv.blocks[bi].get("cleanup"):
                    continue
                c = lookup_callee(F, t)
                if c is not None:
                    m.setdefault(c["key"], {})[g["key"]] = g
        _RC[ck] = m
    return list(_RC[ck].get(key, {}).values())


def check_cfg(F, R, cfg, backend):
    I = lambda s: "%s:%s" % (cfg, s)
    es = entries(F)
    R.floor("C15.entries", I("untrusted-input entry points"), len(es), 60)
    P = Panic(F)
    P.reach(es)
    P.scan()
    R.floor("C15.reach", I("functions reachable from the entries"), len(P.reached), 250)
    # abstract interpretation from the same entries (every parameter at its type invariant / any bytes / any length)
    D = Driver(F, backend)
    D.all_generic_roots = True
    from eng_panic import PANIC_CALL
    D.ip.must_record_rx = PANIC_CALL
    for f in sorted(es, key=lambda f: f["key"]):
        D.run_root(f, check_ret=False)
    R.floor("C15.absint", I("entry points analysed by ABSINT"), len(D.roots_run), 55)
    skipped = sorted(short(f) for f, _ in D.skipped)
    for f, why in D.errors:
        R.viol("C15.analysis", I(short(f)), "abstract interpretation did not complete: %s" % why, F.loc(f))
    n_ok = n_ai = n_dead = n_res = 0
    for e in P.edges:
        f = e["fn"]
        if OUT_OF_SCOPE.search(f["path"]):
            continue
        inst = "%s:%s:%s" % (short(f), e["kind"], e["detail"])
        if e["ok"]:
            n_ok += 1
            R.ok("C15.discharged", I(inst), e["why"])
            continue
        site = D.ip.site_ok.get((f["key"], e["line"]))
        if site is True:
            n_ai += 1
            R.ok("C15.discharged", I(inst), "ABSINT: holds in every context reached from the entry points")
            continue
        if site is None and f["key"] in D.ip.visited and not e["kind"].startswith("assert:overflow"):
            n_dead += 1
            R.ok("C15.discharged", I(inst), "ABSINT: the function is analysed from the entry points and no abstract path reaches this edge")
            continue
        res = None
        for i, (fp, kp, dp, why) in enumerate(RESIDUALS):
            if re.search(fp, f["path"]) and re.search(kp, e["kind"]) and re.search(dp, e["detail"]):
                res = why
                break
        if res is None and not f.get("exported") and f["kind"] != "Closure":
            # the assertion a residual justifies was moved into a private helper: the residual is inherited when every function that calls the helper
            # *and is reachable from the entry points* is one the residual names (the justification is about those call sites)
            cs = reached_callers(F, P, f["key"])
            for i, (fp, kp, dp, why) in enumerate(RESIDUALS):
                if cs and all(re.search(fp, c["path"]) for c in cs) and re.search(kp, e["kind"]) and re.search(dp, e["detail"]):
                    res = why + " [in the private helper %s, reached only through %s]" % (short(f), ", ".join(sorted(short(c) for c in cs)))
                    break
        if res:
            n_res += 1
            R.ok("C15.residual", I(inst), "reviewed: " + res)
        else:
            R.viol("C15.panic_edge", I(inst), "reachable panic edge (%s) is neither discharged nor reviewed: %s [%s; absint: %s]; call path: %s" % (
                e["kind"], e["detail"], e["why"], "fails" if site is False else ("function not analysed" if f["key"] not in D.ip.visited else "-"),
                P.call_path(f["key"])), e["loc"])
    to_edwards_none(F, R, I)
    R.extra.setdefault("panic_scan", {})[cfg] = {
        "entries": len(es), "functions_reached": len(P.reached), "edges": len(P.edges), "discharged_by_constant_reasoning": n_ok,
        "discharged_by_absint": n_ai, "unreached_in_analysed_function": n_dead, "residual_reviewed": n_res,
        "absint_roots": len(D.roots_run), "absint_skipped_roots": skipped[:20], "absint_steps": D.ip.steps,
        "unmodelled_callees": dict(sorted(D.ip.unmodelled.items(), key=lambda x: -x[1])[:10])}


def to_edwards_none(F, R, I):
    """side condition of the nonspec_map_to_curve residual: MontgomeryPoint::to_edwards produces None only (a) under the
    u == -1 test or (b) by returning decompress()'s own result; any other None exit makes the expect() reachable"""
    from pathlib2 import success_sites
    import ex
    fs = F.fn("curve25519_dalek::montgomery::MontgomeryPoint::to_edwards", all=True)
    if len(fs) != 1:
        R.anchor_missing("C15.to_edwards_none", I("MontgomeryPoint::to_edwards"), "function not found")
        return
    fv = view(F, fs[0])
    n_none = 0
    for bi, b in enumerate(fv.blocks):
        if bi not in fv.live_blocks() or b.get("cleanup"):
            continue
        for s in b["s"]:
            if s[0] == "=" and s[1][0] == 0 and not s[1][1] and s[2][0] == "agg" and s[2][1][0] == "adt" and "Option" in str(s[2][1][1]):
                if s[2][1][2] == 0:
                    n_none += 1
                    e = guard_expr(fv, bi)
                    ok = e is not None and mentions_minus_one(e) and bool(ex.find(e, lambda x: ex.is_call(x, r"(ct_eq|PartialEq>::eq|::eq)$")))
                    if ok:
                        R.ok("C15.to_edwards_none", I("to_edwards:None@%d" % n_none), "None is produced only under the `u == MINUS_ONE` test")
                    else:
                        R.viol("C15.to_edwards_none", I("to_edwards:None@%d" % n_none),
                               "to_edwards produces None on a path not guarded by the u == -1 test: the expect() in nonspec_map_to_curve (reviewed residual) becomes reachable", fv.loc(s[3]))
                else:
                    R.viol("C15.to_edwards_none", I("to_edwards:Some"), "to_edwards builds Some(..) itself instead of returning decompress()'s result: review the residual", fv.loc(s[3]))
        t = b.get("t")
        if t and t["k"] == "call" and t["dest"][0] == 0 and not t["dest"][1]:
            n = cname(t)
            ok = bool(re.search(r"CompressedEdwardsY::decompress$", n))
            if ok:
                R.ok("C15.to_edwards_none", I("to_edwards:tail-call"), "result is decompress()'s result")
            else:
                R.viol("C15.to_edwards_none", I("to_edwards:tail-call"), "result comes from %s, not decompress()" % n, fv.loc(t["line"]))
    # `?` on an Option (Try::branch + from_residual) is another None exit
    for bi, t in fv.calls:
        if re.search(r"FromResidual.*::from_residual$|ops::Try>::branch$", cname(t)) and bi in fv.live_blocks():
            R.viol("C15.to_edwards_none", I("to_edwards:question-mark"), "to_edwards propagates / post-processes an Option with `?`: None exits are no longer exactly {u == -1, decompress()}", fv.loc(t["line"]))
    R.floor("C15.to_edwards_none", I("None aggregates in to_edwards"), n_none, 1)


def mentions_minus_one(e):
    """does the expression mention a field-element constant equal to -1 mod p (by path or by limb value)?"""
    import ex
    P = 2**255 - 19

    def limbs_value(x):
        if isinstance(x, dict):
            for v in x.values():
                r = limbs_value(v)
                if r is not None:
                    return r
        if isinstance(x, list) and len(x) in (5, 10) and all(isinstance(i, int) for i in x):
            if len(x) == 5:
                return sum(l << (51 * i) for i, l in enumerate(x)) % P
            sh, acc = 0, 0
            for i, l in enumerate(x):
                acc += l << sh
                sh += 26 if i % 2 == 0 else 25
            return acc % P
        if isinstance(x, list):
            for v in x:
                r = limbs_value(v)
                if r is not None:
                    return r
        return None

    def pred(x):
        if isinstance(x, tuple) and x and x[0] == "const":
            if len(x) > 3 and x[3] and re.search(r"MINUS_ONE$", str(x[3])):
                return True
            return limbs_value(x[1]) == P - 1
        return False
    return bool(ex.find(e, pred))


def guard_expr(fv, bi):
    """expression of the switch condition that controls block bi (nearest dominating switch whose one arm leads to bi)"""
    from mirlib import expr_of
    for pb, b in enumerate(fv.blocks):
        t = b.get("t")
        if t and t["k"] == "switch":
            tg = [x[1] for x in t["targets"]] + [t["otherwise"]]
            if bi in tg and len(set(tg)) > 1:
                return expr_of(fv, t["discr"], 10)
    return None


def short(f):
    p = f["path"].replace("curve25519_dalek::", "").replace("backend::serial::", "")
    if f.get("trait") and f["kind"] != "Closure":
        p = "<%s as %s>::%s" % ((f.get("self_ty") or "").replace("curve25519_dalek::", "").replace("backend::serial::", "").replace("backend::vector::", ""), re.sub(r"<.*", "", f["trait"]).split("::")[-1], f["name"])
    return p
